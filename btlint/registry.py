"""Property -> rule functions (the attribution table of DESIGN Appendix E lives in the rule modules)."""
import importlib

from .source import AnalysisError

PROPS = ["C%02d" % i for i in range(1, 21)]


def run_property(pid, chk):
    if pid not in PROPS:
        raise AnalysisError("unknown property %s" % pid)
    try:
        mod = importlib.import_module("btlint.rules.%s" % pid.lower())
    except ImportError as e:
        raise AnalysisError("no rule set built for %s (%s)" % (pid, e))
    mod.run(chk)
