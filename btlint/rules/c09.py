"""C09 - a sub-strategy's index equals its stand-alone index (DESIGN 5/C09)."""
from . import backtest_rules, core_rules, tree_rules


def run(chk):
    chk.explain("C09: necessary structure of the shadow ('paper') mechanism - (R1) every non-root strategy gets, at every setup, a plain deep copy of itself that is re-rooted, set up "
                "with the original data and the same settings and funded as a flow with a fixed notional; (R2) that notional equals Backtest's default initial capital; (R3) the shadow "
                "is stepped update -> run -> update on every new date, unconditionally, exactly like the stand-alone date loop; (R4) the sub-strategy's price and price row are the "
                "shadow's price; (R5) that price is published into the parent's universe on every update; settings are pushed down the tree before the shadows are copied.")
    chk.assume("the equality of the two index series is a relation between two runs and is not decided; deterministic, calendar-gated stacks are the property's premise")
    tree_rules.shadow_creation(chk, "C09")
    core_rules.strategy_update(chk, "C09")
    backtest_rules.run_loop(chk, "C09")
    backtest_rules.adjust_call_sites(chk, "C09")
    tree_rules.settings_pushed_at_construction(chk, "C09")
    tree_rules.setup_from_parent_rules(chk, "C09")  # a sub-strategy created on the fly becomes visible to its parent through the same universe as one declared up front
    core_rules.outlay_rules(chk, "C09")
    core_rules.set_commissions_rules(chk, "C09")  # the same fee function nested and stand-alone
    from .c05 import settings_reach_every_node

    settings_reach_every_node(chk, "C09")  # the same position mode nested and stand-alone: it has to reach every security, attached at once or lazily
    core_rules.refresh_before_trade(chk, "C09")  # inside a shadow copy only the parent pointer is reliable: trades there must refresh to the parent's date
    core_rules.transact_rules(chk, "C09")  # a trade marks the tree stale through its PARENT (inside a shadow copy a security's own root pointer may be stale)
