"""C11 - backtests are isolated, repeatable and never mutate their inputs (DESIGN 5/C11)."""
from . import backtest_rules, tree_rules
from .common import CORE


def run(chk):
    chk.explain("C11: (R1) escape analysis of Backtest.__init__/_process_data: the template flows only into deepcopy, nothing is called on or written to it, the data is never written, "
                "additional data is copied; (R2) a strategy's universe is a copy made in setup and the caller's frame is never a store target; (R3) children are deep-copied before they "
                "are renamed or re-parented; (R4) has_run gates the run; (R5) no set iteration order reaches a stored / returned / sampled sequence.")
    chk.assume("random algos draw from the global random / numpy generators: seeding is the caller's job; deepcopy of user-defined algos is out of scope")
    tree_rules.backtest_init_rules(chk, "C11")
    tree_rules.universe_rules(chk, "C11")
    tree_rules.add_children_rules(chk, "C11")
    backtest_rules.run_loop(chk, "C11")
    tree_rules.set_order_rules(chk, "C11")
    tree_rules.set_typed_attribute_order(chk, "C11")
    tree_rules.input_data_never_mutated(chk, "C11")
    tree_rules.no_shared_class_state(chk, "C11")
    from .algo_equiv import check_equiv
    from .c19 import STRATEGY_INIT_REF
    check_equiv(chk, "C19.R1", CORE, "Strategy", "__init__", STRATEGY_INIT_REF, "strategy-construction",
                "every Strategy instance starts with its own stack and its own empty temp and perm (nothing shared between instances or with the template)", no_inline=("__init__",))
    no_process_dependent_hash(chk)
    from .c14 import random_sample
    random_sample(chk)  # the random selection draws through the generator the caller seeds (random.seed): that is what makes a seeded run repeatable


def no_process_dependent_hash(chk):
    """hash() of a str / bytes / tuple containing one differs from process to process (PYTHONHASHSEED): nothing derived from it may steer a run"""
    import ast
    n = 0
    for f in chk.prog.all_functions(modules=("bt/core.py", "bt/algos.py", "bt/backtest.py")):
        n += 1
        if f.name == "__hash__":
            continue
        for node in ast.walk(f.node):
            if isinstance(node, ast.Call) and isinstance(node.func, ast.Name) and node.func.id == "hash":
                chk.ob("C11.R5", False, f.module, f.qual, "process-dependent-hash", "the built-in hash of strings is randomised per process: a value derived from it makes runs differ between processes",
                       where="%s:%d" % (f.module, node.lineno), expected="a process-independent key (the values themselves, a string, hashlib)", found=ast.unparse(node)[:120])
    chk.floor_count("C11.R5:functions scanned for hash()", n, 200)

