"""C20 - risk sums over the tree, hedges neutralise it, matured positions close and roll (DESIGN 5/C20)."""
from .. import sym
from ..evalfn import SELF
from ..sym import canon
from . import c06, tree_rules, core_rules
from .algo_equiv import check_equiv
from .common import ALGOS, CORE, G, plain, short

REFS = [
    ("UpdateRisk", "_set_risk_recursive", '''
def ref(self, target, depth, unit_risk_frame):
    set_history = depth < self.history
    if not hasattr(target, "risk"):
        target.risk = {}
        if set_history:
            target.risks = pd.DataFrame(index=target.data.index)
    if self.measure not in target.risk:
        target.risk[self.measure] = np.nan
        if set_history:
            target.risks[self.measure] = np.nan
    if isinstance(target, bt.core.SecurityBase):
        index = unit_risk_frame.index.get_loc(target.root.now)
        unit_risk = _get_unit_risk(target.name, unit_risk_frame, index)
        if is_zero(target.position):
            risk = 0.0
        else:
            risk = unit_risk * target.position * target.multiplier
    else:
        risk = 0.0
        for child in target.children.values():
            self._set_risk_recursive(child, depth + 1, unit_risk_frame)
            risk += child.risk[self.measure]
    target.risk[self.measure] = risk
    if depth < self.history:
        target.risks.loc[target.now, self.measure] = risk
''', "a security's risk is unit risk x position x multiplier at the root's current date (0 when flat), a strategy's risk is the sum over all its children after recursing, history is kept to the requested depth"),
    ("UpdateRisk", "__call__", '''
def ref(self, target):
    unit_risk_frame = target.get_data("unit_risk")[self.measure]
    self._set_risk_recursive(target, 0, unit_risk_frame)
    return True
''', "the unit risks of the measure are taken from the 'unit_risk' data and the recursion starts at depth 0"),
    ("HedgeRisks", "__call__", '''
def ref(self, target):
    securities = target.temp["selected"]
    target_risk = np.array([self._get_target_risk(target, m) for m in self.measures])
    if self.strategy is not None:
        target_risk += np.array([self._get_target_risk(self.strategy, m) for m in self.measures])
    target_risk = target_risk.reshape(len(self.measures), 1)
    data = []
    for m in self.measures:
        d = target.get_data("unit_risk").get(m)
        if d is None:
            raise ValueError("unit_risk for %s not present in temp on %s" % (self.measure, target.name))
        i = d.index.get_loc(target.now)
        data.append((i, d))
    hedge_risk = np.array([[_get_unit_risk(s, d, i) for (i, d) in data] for s in securities])
    if self.pseudo:
        inv = np.linalg.pinv(hedge_risk).T
    else:
        inv = np.linalg.inv(hedge_risk).T
    notionals = np.matmul(inv, -target_risk).flatten()
    for notional, security in zip(notionals, securities):
        if np.isnan(notional) and self.throw_nan:
            raise ValueError("%s has nan hedge notional" % security)
        target.transact(notional, security)
    return True
''', "the risk to hedge is the target's risk PLUS the optional strategy's, the hedge notionals are inverse-Jacobian(unit risks at now) x (-risk) (pseudo-inverse when asked) and each is transacted on its instrument"),
    ("ClosePositionsAfterDates", "__call__", '''
def ref(self, target):
    if "closed" not in target.perm:
        target.perm["closed"] = set()
    close_dates = target.get_data(self.close_dates)["date"]
    sec_names = [
        sec_name for sec_name, sec in target.children.items() if isinstance(sec, SecurityBase) and sec_name in close_dates.index and sec_name not in target.perm["closed"]
    ]
    is_closed = close_dates.loc[sec_names] <= target.now
    for sec_name in is_closed[is_closed].index:
        target.close(sec_name, update=False)
        target.perm["closed"].add(sec_name)
    target.root.update(target.now)
    return True
''', "every security child with a close date on or before now that is not yet recorded as closed is closed (update deferred) and recorded, then the root is refreshed"),
    ("RollPositionsAfterDates", "__call__", '''
def ref(self, target):
    if "rolled" not in target.perm:
        target.perm["rolled"] = set()
    roll_data = target.get_data(self.roll_data)
    transactions = {}
    sec_names = [
        sec_name for sec_name, sec in target.children.items() if isinstance(sec, SecurityBase) and sec_name in roll_data.index and sec_name not in target.perm["rolled"]
    ]
    for sec_name, sec_fields in roll_data.loc[sec_names].iterrows():
        if sec_fields["date"] <= target.now:
            target.perm["rolled"].add(sec_name)
            new_quantity = sec_fields["factor"] * target[sec_name].position
            new_sec = sec_fields["target"]
            if new_sec in transactions:
                transactions[new_sec] += new_quantity
            else:
                transactions[new_sec] = new_quantity
            target.close(sec_name, update=False)
    for new_sec, quantity in transactions.items():
        target.transact(quantity, new_sec, update=False)
    target.root.update(target.now)
    return True
''', "each matured, not yet rolled security is recorded, its position x factor is ADDED to its target's pending quantity, the old leg is closed, the aggregated quantities are transacted, then the root is refreshed"),
    ("SelectActive", "__call__", '''
def ref(self, target):
    selected = target.temp["selected"]
    rolled = target.perm.get("rolled", set())
    closed = target.perm.get("closed", set())
    selected = [s for s in selected if s not in set.union(rolled, closed)]
    target.temp["selected"] = selected
    return True
''', "rolled and closed securities are removed from the selection"),
]

GET_UNIT_RISK_REF = '''
def ref(security, data, index=None):
    try:
        unit_risks = data[security]
        unit_risk = unit_risks.values[index]
    except Exception:
        unit_risk = 0.0
    return unit_risk
'''


def jacobian_agreement(chk):
    """C20.R2 writer/reader agreement: the Jacobian entry must be d(risk)/d(position) of the UpdateRisk formula."""
    U = chk.summary(ALGOS, "UpdateRisk", "_set_risk_recursive", host="UpdateRisk", no_inline=("_set_risk_recursive",))
    risk_store = [e for e in U.events if e.kind == "store" and sym.contains(e.base, lambda n: n[0] == "fld" and len(n) == 4 and n[2] == "risk") and canon(e.value) != canon(("nan",))]
    chk.need(risk_store, "UpdateRisk no longer stores the risk")
    v = risk_store[-1].value
    target = ("param", U.fn.params[1] if len(U.fn.params) > 1 else "target")  # the node whose risk is computed, whatever it is called
    pos = None
    factors = set()
    for n in sym.walk(v):
        if n[0] == "fld" and n[1] == target and n[2] in ("_position", "multiplier"):
            factors.add(n[2])
    chk.need("_position" in factors, "UpdateRisk's security risk no longer depends on the position")
    uses_multiplier = "multiplier" in factors
    H = chk.summary(ALGOS, "HedgeRisks", "__call__", host="HedgeRisks", no_inline=("_get_target_risk",))
    jac = None
    for e in H.events:
        for a in list(e.args or []):
            for n in sym.walk(a):
                if n[0] == "call" and n[1] == "np.array" and n[2] and n[2][0][0] == "comp" and isinstance(n[2][0][2], tuple) and n[2][0][2][0] == "comp":
                    jac = n[2][0]
    chk.need(jac is not None, "HedgeRisks no longer builds the Jacobian of unit risks")
    entry = jac[2][2]
    has_mult = sym.contains(entry, lambda n: (n[0] in ("fld", "attr") and n[2] == "multiplier"))
    chk.ob("C20.R2", (not uses_multiplier) or has_mult, ALGOS, "HedgeRisks.__call__", "jacobian-entry:missing-factor:multiplier",
           "the hedge's Jacobian entry must be the derivative of UpdateRisk's security risk with respect to the position, unit_risk x multiplier: it omits the instrument's multiplier, so a "
           "hedge with a x10 instrument leaves 90% of the risk", where=H.fn.where, expected="unit_risk(s, m) * multiplier(s)", found=short(entry, 160), sample={"entry": short(entry, 140)})


ALT_REFS = {
    # closing a flat security trades nothing (StrategyBase.close sizes the trade from the position / value and skips zero): the call may be skipped for it
    ("ClosePositionsAfterDates", "__call__"): ('''
def ref(self, target):
    if "closed" not in target.perm:
        target.perm["closed"] = set()
    close_dates = target.get_data(self.close_dates)["date"]
    sec_names = [
        sec_name for sec_name, sec in target.children.items() if isinstance(sec, SecurityBase) and sec_name in close_dates.index and sec_name not in target.perm["closed"]
    ]
    is_closed = close_dates.loc[sec_names] <= target.now
    for sec_name in is_closed[is_closed].index:
        if target[sec_name].position != 0:
            target.close(sec_name, update=False)
        target.perm["closed"].add(sec_name)
    target.root.update(target.now)
    return True
''',),
}


def run(chk):
    chk.explain("C20: UpdateRisk (recursion and entry point), the unit-risk reader, HedgeRisks, ClosePositionsAfterDates, RollPositionsAfterDates and SelectActive are equivalent to "
                "reference models (truth table over branch atoms; per-iteration effects; pandas / numpy expressions in canonical form); the Jacobian entry agrees with the risk formula "
                "(writer/reader agreement); close/roll brackets end in a refresh of the root; StrategyBase.close sizes the closing trade from fresh accessor reads.")
    chk.assume("zero risk after hedging as a numeric fact and singular Jacobians are not decided")
    for cls, name, src, what in REFS:
        check_equiv(chk, {"UpdateRisk": "C20.R1", "HedgeRisks": "C20.R2"}.get(cls, "C20.R3"), ALGOS, cls, name, src, "documented-behaviour", "%s.%s: %s" % (cls, name, what),
                    no_inline=("_set_risk_recursive", "_get_target_risk") if name != "_set_risk_recursive" else ("_set_risk_recursive",), limit=14, alt_refs=ALT_REFS.get((cls, name), ()))
    check_equiv(chk, "C20.R1", ALGOS, None, "_get_unit_risk", GET_UNIT_RISK_REF, "unit-risk-reader", "_get_unit_risk: the security's unit risk at the given row, 0 when there is no data for it")
    jacobian_agreement(chk)
    n = core_rules.defer_rules(chk, "C20", modules=(ALGOS,), only_hosts=("ClosePositionsAfterDates.__call__", "RollPositionsAfterDates.__call__"))
    chk.floor_count("C20.R3:deferred calls in close/roll", n, 3)
    c06.close_flatten(chk, "C20")
    core_rules.fresh_read_rules(chk, "C20")
    tree_rules.setup_from_parent_rules(chk, "C20")
    from .c16 import closeout_quantity
    closeout_quantity(chk)  # a dynamic child's own unit-risk / maturity / roll tables are the ones its algos read
