"""C19 - tree wiring and universe scoping (DESIGN 5/C19)."""
from . import core_rules, tree_rules
from .algo_equiv import check_equiv
from .common import CORE

NODE_INIT_REF = '''
def ref(self, name, parent=None, children=None):
    self.name = name
    self.children = {}
    self._lazy_children = {}
    self._universe_tickers = []
    self._childrenv = []
    self._original_children_are_present = (children is not None) and (len(children) >= 1)
    self._has_strat_children = False
    self._strat_children = []
    if parent is None:
        self.parent = self
        self.root = self
        self.integer_positions = True
    else:
        self.parent = parent
        parent._add_children([self], dc=False)
    self._add_children(children, dc=True)
    self.now = 0
    self.root.stale = False
    self._price = 0
    self._value = 0
    self._notl_value = 0
    self._weight = 0
    self._capital = 0
    self._issec = False
    self._fixed_income = False
    self._bidoffer_set = False
    self._bidoffer_paid = 0
'''

STRATEGY_INIT_REF = '''
def ref(self, name, algos=None, children=None, parent=None):
    super(Strategy, self).__init__(name, children=children, parent=parent)
    if algos is None:
        algos = []
    self.stack = AlgoStack(*algos)
    self.temp = {}
    self.perm = {}
'''

FULL_NAME_REF = '''
def ref(self):
    if self.parent == self:
        return self.name
    else:
        return "%s>%s" % (self.parent.full_name, self.name)
'''


def run(chk):
    chk.explain("C19: (R1) child registration: duplicate names raise, an attached child gets parent, root and the position mode of the node it is attached to, children dict and value "
                "list move together, strategy children and tickers are registered; (R2) every push-down recursion (_set_root, use_integer_positions, set_commissions, members) reaches "
                "all children with the same argument and settings are pushed at construction; (R3) a lazily named child is created, attached, set up and caught up before it is looked "
                "up; (R4) the universe is the declared tickers present in the data (all when none declared) plus one column per sub-strategy, published on every update.")
    check_equiv(chk, "C19.R1", CORE, "Node", "__init__", NODE_INIT_REF, "node-construction",
                "a node without a parent is its own parent and root (integer positions by default); with a parent it is attached to it (not copied); declared children are attached as copies",
                no_inline=("_add_children",), ignore_fields=("_original_children_are_present",))
    tree_rules.declared_children_flag(chk)
    check_equiv(chk, "C19.R1", CORE, "Strategy", "__init__", STRATEGY_INIT_REF, "strategy-construction", "a Strategy passes children and parent on, builds its stack and starts with empty temp and perm",
                no_inline=("__init__",))
    tree_rules.add_children_rules(chk, "C19")
    # the root push-down is a private helper: it is found (and checked for completeness) where _add_children hands self.root to the child
    core_rules.recursion_rules(chk, "C19", [("Node", "use_integer_positions", "integer_positions", False), ("StrategyBase", "set_commissions", "commission_fn", True)])
    tree_rules.settings_pushed_at_construction(chk, "C19")
    tree_rules.lazy_child_rules(chk, "C19")
    core_rules.strategy_allocate_rules(chk, "C19")
    tree_rules.universe_rules(chk, "C19")
    tree_rules.setup_from_parent_rules(chk, "C19")
    tree_rules.shadow_creation(chk, "C19")
    tree_rules.full_name_members(chk, "C19")
    core_rules.strategy_update(chk, "C19")
    core_rules.security_setup_rules(chk, "C19")
