"""C19 - tree wiring and universe scoping (DESIGN 5/C19)."""
from . import core_rules, tree_rules


def run(chk):
    chk.explain("C19: (R1) child registration: duplicate names raise, an attached child gets parent, root and the position mode of the node it is attached to, children dict and value "
                "list move together, strategy children and tickers are registered; (R2) every push-down recursion (_set_root, use_integer_positions, set_commissions, members) reaches "
                "all children with the same argument and settings are pushed at construction; (R3) a lazily named child is created, attached, set up and caught up before it is looked "
                "up; (R4) the universe is the declared tickers present in the data (all when none declared) plus one column per sub-strategy, published on every update.")
    tree_rules.add_children_rules(chk, "C19")
    core_rules.recursion_rules(chk, "C19", [("Node", "_set_root", "root", False), ("Node", "use_integer_positions", "integer_positions", False),
                                            ("StrategyBase", "set_commissions", "commission_fn", True)])
    tree_rules.settings_pushed_at_construction(chk, "C19")
    tree_rules.lazy_child_rules(chk, "C19")
    core_rules.strategy_allocate_rules(chk, "C19")
    tree_rules.universe_rules(chk, "C19")
    tree_rules.setup_from_parent_rules(chk, "C19")
    tree_rules.full_name_members(chk, "C19")
    core_rules.strategy_update(chk, "C19")
