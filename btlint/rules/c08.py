"""C08 - idempotent updates, fresh reads, append-only history (DESIGN 5/C08)."""
from . import backtest_rules, core_rules


def run(chk):
    chk.explain("C08: (R1) date-change guards evaluated on the pre-update clock; the security shortcut precedes every write; (R2) non-idempotent writes inside update are exactly "
                "the flush-and-reset pairs; (R3) every accessor of tree-derived state performs the tree refresh and every security accessor the self refresh (classification by "
                "effect analysis); raw reads of another node's derived state only at the enumerated sites; (R4) every in-place history write indexes with inow; (R5) every series "
                "accessor slices to now; deferred-update brackets are closed by a refresh of the root.")
    core_rules.security_update(chk, "C08")
    core_rules.strategy_update(chk, "C08")
    core_rules.adjust_rules(chk, "C08")
    core_rules.accessor_rules(chk, "C08")
    core_rules.fresh_read_rules(chk, "C08")
    core_rules.update_after_liquidation(chk, "C08")
    n = core_rules.defer_rules(chk, "C08")
    chk.floor_count("C01.R6:deferred-update call sites", n, 7)
    backtest_rules.run_loop(chk, "C08")
    core_rules.refresh_before_trade(chk, "C08")
    core_rules.row_hint_rules(chk, "C08")  # history rows are written at the row the hint names: only update()'s own resolved row is ever handed on
    from . import c04
    c04.universe_accessor(chk, "C08")  # no series handed out extends beyond now: the windowed universe and who may write its cache
    from .algo_equiv import check_equiv
    from .c18 import REFS as REPORT_REFS
    for mod, cls, name, src, what in REPORT_REFS:
        if (cls, name) in (("StrategyBase", "positions"), ("StrategyBase", "outlays")):
            # computed accessors: recomputed from the tree on every read (nothing cached across reads)
            check_equiv(chk, "C18.R1", mod, cls, name, src, "report-formula", "%s.%s: %s" % (cls, name, what), no_inline=("update", "get_transactions"), limit=14, ignore_refresh=True)
    from .c06 import close_flatten

    close_flatten(chk, "C08")  # a liquidation always leaves the tree marked stale: the next read sees it
    from .c20 import REFS as RISK_REFS
    for cls_, name_, src_, what_ in RISK_REFS:
        if (cls_, name_) == ("UpdateRisk", "_set_risk_recursive"):
            # the risk history an algo keeps on the nodes is recorded history too: earlier rows are never wiped
            check_equiv(chk, "C20.R1", "bt/algos.py", cls_, name_, src_, "documented-behaviour", "%s.%s: %s" % (cls_, name_, what_), no_inline=("_set_risk_recursive",), limit=14)
