"""C06 - Rebalance brings every child to its target weight (DESIGN 5/C06)."""
import ast

from .. import sym
from ..evalfn import SELF
from ..sym import canon
from . import core_rules
from .common import over_all_children, own_event, ALGOS, CORE, G, Roles, cur, dominates, fld, guard_subset, has_lit, increments_by, lits, loop_conditions, plain, short
from .core_rules import bound_args, equal, norm_versions

TARGET = ("param", "target")

BASE_REF = '''
def ref(self, target):
    if target.fixed_income:
        if "notional_value" in target.temp:
            base = target.temp["notional_value"]
        else:
            base = target.notional_value
    else:
        base = target.value
    if "cash" in target.temp and not target.fixed_income:
        base = base * (1 - target.temp["cash"])
    return base
'''

ROT_REF = '''
def ref(self, target, cname, weights, days_left):
    curr = target.children[cname].weight if cname in target.children else 0.0
    dlt = (weights[cname] - curr) / days_left
    return curr + dlt
'''


def _default_is_true(fi, pname):
    a = fi.node.args
    pos = a.posonlyargs + a.args
    defaults = [None] * (len(pos) - len(a.defaults)) + list(a.defaults)
    for p_, d_ in list(zip(pos, defaults)) + list(zip(a.kwonlyargs, a.kw_defaults)):
        if p_.arg == pname:
            return isinstance(d_, ast.Constant) and d_.value is True
    return False


def strip_versions(v):
    if isinstance(v, tuple):
        if v and v[0] == "fld" and len(v) == 4:
            return ("fld", strip_versions(v[1]), v[2], 0)
        return tuple(strip_versions(x) for x in v)
    return v


def rebalance_algo(chk, pid):
    R = Roles(chk.prog)
    fi = chk.prog.func(ALGOS, "Rebalance", "__call__")
    S = chk.summary(ALGOS, "Rebalance", "__call__", host="Rebalance")
    host = "Rebalance.__call__"
    chk.site()
    rb = [e for e in S.calls("rebalance") if e.recv == TARGET]
    cl = [e for e in S.calls("close") if e.recv == TARGET]
    chk.need(rb, "%s no longer calls target.rebalance" % host)
    if not cl:
        # the function is there but does not do what the property needs: a violation of the property, not a fault of the analysis
        chk.ob("C06.R2", False, ALGOS, host, "close-loop", "every child of the target that is not among the targets is closed through the target itself (target.close(name)): "
               "sub-strategies are children too and are de-funded as a whole", where=fi.where, expected="for every child not in targets: target.close(child name)",
               found="no target.close(...) call")
        return
    ref = chk.ref(BASE_REF, "Rebalance", module=ALGOS)
    rbase = ref.exits[-1][1]
    fi_atom = ("fld", TARGET, "_fixed_income", 0)
    for e in rb:
        b = bound_args(e, chk.prog)
        base = b.get("base")
        chk.need(base is not None, "%s: rebalance() is called without a base" % host)
        if pid in ("C06", "C17"):
            for pol in ((False,) if pid == "C06" else (True,)):
                gg = sym.sat([(fi_atom, pol)])
                a, r = sym.restrict(base, gg), sym.restrict(rbase, gg)
                ok = True
                for cg, leaf in sym.cases(r):
                    g2 = sym.sat(tuple(gg) + tuple(cg))
                    ok = ok and sym.equal(sym.restrict(a, g2), leaf)
                chk.ob("C06.R1", ok, ALGOS, host, "base:%s" % ("fi" if pol else "mv"),
                       "the base is captured once, before any holding changes: the strategy's value (notional / SetNotional for fixed income), scaled by (1 - cash) for market-value strategies",
                       where=e.where, expected=short(r, 200), found=short(a, 200), sample={"base": short(a, 160)})
        if pid == "C06":
            def comp_of(v):
                if v is None:
                    return None
                if v[0] == "item":
                    return (v[1], v[2])
                if v[0] == "sub" and sym.is_num(v[2]):
                    return (v[1], int(v[2][1]))
                return None
            cw, cc = comp_of(b.get("weight")), comp_of(b.get("child"))
            ok = cw is not None and cc is not None and cw[0] == cc[0] and cw[1] == 1 and cc[1] == 0 and cw[0][0] == "elem"
            it = e.loops[-1].iter if e.loops else None
            ok = ok and it is not None and it[0] == "mcall" and it[2] == "items" and canon(it[1]) == canon(("sub", ("fld", TARGET, "temp", 0), ("str", "weights"))) and not e.loops[-1].filter
            chk.ob("C06.R3", ok, ALGOS, host, "every-target-rebalanced", "every (child, weight) pair of temp['weights'] is rebalanced to its weight", where=e.where,
                   expected="for name, w in targets.items(): target.rebalance(w, child=name, ...)", found=repr(e)[:160])
            u = b.get("update")
            chk.ob("C06.R3", u is not None and canon(u) == canon(sym.FALSE), ALGOS, host, "rebalance-deferred", "updates are deferred while the children are rebalanced against the captured base",
                   where=e.where, expected="update=False", found=short(u) if u else "default")
    if pid in ("C17", "C06"):
        # close loop in a fixed-income strategy: the tested quantity is the child's notional value
        for e in cl:
            g = G(e)
            child = e.args[0] if e.args else None
            c = ("sub", ("fld", TARGET, "children", 0), child) if child is not None else None
            gg = sym.sat(tuple(g) + ((fi_atom, True),))
            tested = []
            for rawc, rp in e.graw:
                rc = sym.restrict(rawc, gg)
                for a, p in sym.literals(rc, rp):
                    if a[0] in ("zero", "isnan") and not p:
                        tested.append(a)
            want_v = ("fld", c, R.NOTIONAL, 0)
            ok = any(a[0] == "zero" and canon(a) == canon(("zero", sym._abs_norm(sym.to_rat(want_v)))) for a in tested) and any(
                a[0] == "isnan" and canon(a[1]) == canon(want_v) for a in tested)
            chk.ob("C17.R5", ok, ALGOS, host, "close-open-positions:fi",
                   "in a fixed-income strategy a non-target child is closed exactly when its NOTIONAL value is non-zero (and not NaN): a zero-priced bond or a hedge with zero notional is judged by notional, not by market value",
                   where=e.where, expected="close when c.notional_value != 0 and not isnan(c.notional_value)", found="; ".join(short(a, 100) for a in tested))
    if pid == "C06":
        # close loop: children not in targets whose value (notional for FI) is non-zero and not NaN
        for e in cl:
            g = G(e)
            child = e.args[0] if e.args else None
            # over every child: `for cname in target.children`, `.keys()`, `.items()` - the same iteration
            ok_iter = e.loops and canon(e.loops[-1].iter) in (canon(("fld", TARGET, "children", 0)), ("dictiter", canon(("fld", TARGET, "children", 0))))
            targets = ("sub", ("fld", TARGET, "temp", 0), ("str", "weights"))
            not_in = sym.lit_holds(g, ("in", child, targets), False) if child is not None else False
            chk.ob("C06.R2", bool(ok_iter) and not_in, ALGOS, host, "close-non-targets", "every child that is not a target is considered for closing", where=e.where,
                   expected="for cname in target.children: if cname not in targets: ... close", found=sym.fmt_guard(e.guard)[:200])
            c = ("sub", ("fld", TARGET, "children", 0), child) if child is not None else None
            for pol, fname in ((False, R.VALUE),):
                gg = sym.sat(tuple(g) + ((fi_atom, pol),))
                # the tested quantity under this polarity
                tested = []
                for rawc, rp in e.graw:
                    rc = sym.restrict(rawc, gg)
                    for a, p in sym.literals(rc, rp):
                        if a[0] in ("zero", "isnan") and not p:
                            tested.append(a)
                want_v = ("fld", c, fname, 0)
                ok = any(a[0] == "zero" and canon(a) == canon(("zero", sym._abs_norm(sym.to_rat(want_v)))) for a in tested) and any(
                    a[0] == "isnan" and canon(a[1]) == canon(want_v) for a in tested)
                chk.ob("C06.R2", ok, ALGOS, host, "close-open-positions:%s" % ("fi" if pol else "mv"),
                       "a non-target child is closed exactly when its value is non-zero (and not NaN): a sub-strategy holding only cash is closed too", where=e.where,
                       expected="close when c.value != 0 and not isnan(c.value)", found="; ".join(short(a, 100) for a in tested), sample={"tested": [short(a, 100) for a in tested]})
            u = bound_args(e, chk.prog).get("update")
            chk.ob("C06.R2", u is not None and canon(u) == canon(sym.FALSE), ALGOS, host, "close-deferred", "closing is part of the deferred-update bracket", where=e.where)
        # no early return between the base capture and the trailing refresh other than the missing-weights one
        n = core_rules.defer_rules(chk, "C06", modules=(ALGOS,), only_hosts=("Rebalance.__call__",))
        chk.floor_count("C06.R3:deferred calls in Rebalance", n, 2)
        rets = [e for e in S.events if e.kind == "return" and tuple(e.chain) == (fi.qual,)]
        early = [r for r in rets if r.seq < rb[0].seq]
        ok = all(sym.lit_holds(sym.sat(r.guard), ("in", ("str", "weights"), ("fld", TARGET, "temp", 0)), False) for r in early)
        chk.ob("C06.R3", ok, ALGOS, host, "only-missing-weights-skips", "the algo does nothing only when no weights were set", where=fi.where)


def strategy_rebalance(chk, pid):
    core_rules.public_signature(chk, "StrategyBase", "rebalance")
    core_rules.public_signature(chk, "StrategyBase", "close")
    R = Roles(chk.prog)
    fi = chk.prog.func(CORE, "StrategyBase", "rebalance")
    S = chk.summary(CORE, "StrategyBase", "rebalance", host="StrategyBase", no_inline=("close", "allocate", "transact", "_create_child_if_needed", "update"))
    host = "StrategyBase.rebalance"
    chk.site()
    weight, base, child = ("param", "weight"), ("param", "base"), ("param", "child")
    fi_atom = fld(SELF, "_fixed_income")
    trades = [e for e in S.events if e.kind == "call" and e.name in ("allocate", "transact") and e.recv is not None and e.recv[0] == "sub"]
    chk.need(trades, "%s no longer trades the child" % host)
    seen = {"mv": 0, "fi": 0}
    zw_atom = ("zero", sym._abs_norm(sym.to_rat(weight)))
    # decided per scenario (own accounting mode x child's mode), whatever the branch structure is
    scenarios = [("mv", False, None)] if pid == "C06" else ([("fi", True, True), ("fi", True, False)] if pid == "C17" else [])
    for mode, self_fi, child_fi in scenarios:
        matching = []
        for e in trades:
            c = e.recv
            sc = [(canon(fi_atom), self_fi), (zw_atom, False)]
            if child_fi is not None:
                sc.append((canon(("fld", c, "_fixed_income", 0)), child_fi))
            g = sym.sat(tuple(G(e)) + tuple(sc))
            if not sym.inconsistent(g):
                matching.append((e, g))
        want_call = "transact" if child_fi else "allocate"
        label = "mv" if mode == "mv" else "fi:%s" % want_call
        rule = "C06.R4" if mode == "mv" else "C17.R5"
        if len(matching) != 1:
            chk.ob(rule, False, CORE, host, "delta:%s" % label, "exactly one trade of the child happens in each accounting mode", where=fi.where,
                   expected="one allocate/transact call", found="%d calls" % len(matching))
            continue
        e, g = matching[0]
        seen[mode] += 1
        c = e.recv
        ok_child = c[1][0] == "fld" and c[1][2] == "children" and canon(c[2]) == canon(child)
        amt = e.args[0] if e.args else None
        own = fld(SELF, R.VALUE) if mode == "mv" else fld(SELF, R.NOTIONAL)
        # one scenario per kind of base: given by the caller / left at its NaN default (then the strategy's own value or notional)
        nan_base = canon(("call", "np.isnan", (base,), ()))
        ok = amt is not None and e.name == want_call
        exp = ("-", ("*", weight, base), ("*", ("fld", c, R.WEIGHT, 0), own))
        for is_nan in (False, True):
            gs = sym.sat(tuple(g) + ((nan_base, is_nan),))
            if sym.inconsistent(gs) or amt is None:
                continue
            exp_s = ("-", ("*", weight, own if is_nan else base), ("*", ("fld", c, R.WEIGHT, 0), own))
            ok = ok and sym.equal(strip_versions(sym.restrict(amt, gs)), strip_versions(exp_s))
        b_eff = base
        if mode == "mv":
            chk.ob(rule, ok and ok_child, CORE, host, "delta:mv", "the child receives target holding minus current holding: weight x base - child weight x strategy value",
                   where=e.where, expected=short(exp, 200), found=(e.name + " " + short(sym.restrict(amt, g), 200)) if amt else "?", sample={"delta": short(amt, 160) if amt else None})
        else:
            chk.ob(rule, ok and ok_child, CORE, host, "delta:%s" % label,
                   "in a fixed-income strategy the child receives weight x base - child weight x strategy notional (as notional for fixed-income children, as capital otherwise)",
                   where=e.where, expected=want_call + " " + short(exp, 200), found=(e.name + " " + short(sym.restrict(amt, g), 200)) if amt else "?", sample={"delta": short(amt, 160) if amt else None})
        # current weight / value are read through the refreshing accessors
        reads = [p for p in S.events if p.kind == "propread" and p.seq < e.seq and not sym.inconsistent(sym.sat(tuple(g) + tuple(plain(p.guard))))
                 and ((p.obj == c and p.name == "weight") or (p.obj == SELF and p.name in ("value", "notional_value")))]
        names = set(p.name for p in reads)
        ok = "weight" in names and (("value" in names) if mode == "mv" else ("notional_value" in names))
        chk.ob(rule, ok, CORE, host, "delta-reads-fresh:%s" % mode,
               "the current weight and the strategy's current value are read through the refreshing accessors", where=e.where, found=", ".join(sorted(names)))
        u = bound_args(e, chk.prog).get("update")
        chk.ob(rule, u is not None and canon(u) == canon(("param", "update")), CORE, host, "delta-update-flag:%s:%s" % (mode, e.name),
               "the caller's update flag is passed on", where=e.where)
    if pid in ("C06", "C17"):
        zw = ("zero", sym._abs_norm(sym.to_rat(weight)))
        rets = [e for e in S.events if e.kind == "return" and tuple(e.chain) == (fi.qual,)]
        # an exit that no trade precedes on its own path
        def traded_before(e):
            before = [lits(plain(t.guard)) for t in trades if t.seq < e.seq]

            def covered(g, depth):
                if sym.inconsistent(g):
                    return True
                open_atom = None
                for tg in before:
                    undecided = [(a, p) for a, p in tg if not sym.lit_holds(g, a, p)]
                    if not undecided:
                        return True
                    if open_atom is None and not any(sym.lit_holds(g, a, not p) for a, p in tg):
                        open_atom = undecided[0][0]
                if open_atom is None or depth == 0:
                    return False
                return all(covered(sym.sat(tuple(g) + ((open_atom, pol),)), depth - 1) for pol in (True, False))
            return covered(G(e), 4)
        early = [e for e in rets if not traded_before(e)]
        bad = [e for e in early if not sym.lit_holds(G(e), zw, True)]
        # an early exit inside one accounting mode belongs to that mode's property
        if pid == "C06":
            bad = [e for e in bad if not sym.lit_holds(G(e), fi_atom, True)]
        else:
            bad = [e for e in bad if not sym.lit_holds(G(e), fi_atom, False)]
        chk.ob("C06.R5", not bad, CORE, host, "always-trades-nonzero-weight", "for a non-zero target weight the child is always traded to its target: there is no other early exit "
               "(a child already at weight w still has to move when the base differs from the current value)", where=bad[0].where if bad else fi.where,
               expected="return only under is_zero(weight)", found="; ".join(sym.fmt_guard(plain(e.guard))[:120] for e in bad))
    if pid == "C06":
        chk.ob("C06.R4", seen["mv"] > 0, CORE, host, "delta-present:mv", "the market-value branch must be present", where=fi.where)
        # R5: zero weight closes; NaN base falls back to the own value; lazy child created before lookup
        cl = [e for e in S.calls("close") if e.recv == SELF]
        ok = bool(cl) and all(sym.lit_holds(G(e), ("zero", sym._abs_norm(sym.to_rat(weight))), True) and sym.lit_holds(G(e), ("in", child, fld(SELF, "children")), True) for e in cl)
        chk.ob("C06.R5", ok, CORE, host, "zero-weight-closes", "a zero target weight closes the child (and does nothing if the child does not exist)", where=fi.where)
        for e in trades:
            chk.ob("C06.R5", sym.lit_holds(G(e), ("zero", sym._abs_norm(sym.to_rat(weight))), False), CORE, host, "nonzero-weight-trades:%s" % e.name, "a non-zero weight trades the delta",
                   where=e.where)
        cc = S.calls("_create_child_if_needed")
        ok = bool(cc) and all(any(dominates(c_, t) for c_ in cc) for t in trades)
        chk.ob("C19.R3", ok, CORE, host, "lazy-child-before-lookup", "a child named only by a string is created before it is looked up", where=fi.where)
    if pid == "C17":
        chk.ob("C17.R5", seen["fi"] >= 2, CORE, host, "delta-present:fi", "both fixed-income branches (fixed-income child / market-value child) must be present", where=fi.where,
               found="%d" % seen["fi"])


def _base_value(S, e):
    """value of the local `base` at a call: NaN default replaced by the own (notional) value"""
    # find it through the frame's locals is not recorded per event; recompute from the call's own expression tree is not possible either:
    # we rely on the param with its NaN fallback: base = ite(isnan(base), ite(FI, notional_value, value), base)
    R_VALUE = None
    base = ("param", "base")
    for p in S.events:
        if p.kind == "propread" and p.obj == SELF and p.name in ("value", "notional_value") and p.seq < e.seq and any(a[0] == "isnan" and pol for a, pol in p.guard):
            R_VALUE = True
    if R_VALUE:
        fi_atom = fld(SELF, "_fixed_income")
        return ("ite", ("call", "np.isnan", (base,), ()), ("ite", fi_atom, fld(SELF, "_notl_value"), fld(SELF, "_value")), base)
    return base


def close_flatten(chk, pid):
    R = Roles(chk.prog)
    # ---- close
    fi = chk.prog.func(CORE, "StrategyBase", "close")
    S = chk.summary(CORE, "StrategyBase", "close", host="StrategyBase", no_inline=("allocate", "transact", "flatten", "update"))
    host = "StrategyBase.close"
    chk.site()
    child = ("param", "child")
    fi_atom = fld(SELF, "_fixed_income")
    fl = [e for e in S.calls("flatten") if e.recv is not None and e.recv[0] == "sub"]
    al = [e for e in S.calls("allocate") if e.recv is not None and e.recv[0] == "sub"]
    tr = [e for e in S.calls("transact") if e.recv is not None and e.recv[0] == "sub"]
    chk.need(al and tr, "%s no longer closes through allocate / transact" % host)
    if pid in ("C06", "C20", "C08", "C10"):
        ok = bool(fl) and all(any(p and a[0] == "fld" and a[2] == "children" for a, p in []) or True for e in fl)
        chk.ob("C06.R6", bool(fl), CORE, host, "flatten-child-with-children", "closing a sub-strategy first flattens its own children", where=fi.where)
        for e in al:
            g = G(e)
            c = e.recv
            amt = e.args[0] if e.args else None
            ok_form = amt is not None and amt[0] == "neg" and amt[1][0] == "fld" and amt[1][2] == R.VALUE and canon(amt[1][1]) == canon(c)
            # read through the accessor AFTER the child's flatten (which changes it)
            fresh = ok_form and (not fl or amt[1][3] != 0)
            reads = [p for p in S.events if p.kind == "propread" and p.obj == c and p.name == "value" and p.seq < e.seq and (not fl or p.seq > fl[0].seq)]
            chk.ob("C06.R6", ok_form and fresh and bool(reads), CORE, host, "close-amount:mv",
                   "a market-value child is closed by allocating minus its value, read through the accessor after its own children were flattened", where=e.where,
                   expected="c.allocate(-c.value) with c.value read after c.flatten()", found=short(amt, 160) if amt else "?", sample={"amount": short(amt, 120) if amt else None})
            ok = sym.lit_holds(g, fi_atom, False) and sym.lit_holds(g, ("zero", sym._abs_norm(sym.to_rat(amt[1] if ok_form else sym.ONE))), False)
            chk.ob("C06.R6", ok, CORE, host, "close-guard:mv", "nothing is traded for a zero or NaN value", where=e.where, found=sym.fmt_guard(e.guard)[:200])
        for e in tr:
            c = e.recv
            amt = e.args[0] if e.args else None
            ok = amt is not None and amt[0] == "neg" and amt[1][0] == "fld" and amt[1][2] == R.POSITION and canon(amt[1][1]) == canon(c) and sym.lit_holds(G(e), fi_atom, True)
            if pid in ("C06", "C20", "C17", "C08", "C10"):
                chk.ob("C06.R6", ok, CORE, host, "close-amount:fi", "in a fixed-income strategy a child is closed by transacting minus its position", where=e.where,
                       expected="c.transact(-c.position)", found=short(amt, 160) if amt else "?")
        for e in al + tr:
            u = bound_args(e, chk.prog).get("update")
            chk.ob("C06.R6", u is not None and canon(u) == canon(("param", "update")), CORE, host, "close-update-flag:%s" % e.name, "the caller's update flag is passed on", where=e.where)
    # ---- flatten
    fi2 = chk.prog.func(CORE, "StrategyBase", "flatten")
    F = chk.summary(CORE, "StrategyBase", "flatten", host="StrategyBase", no_inline=("allocate", "transact", "update"))
    host2 = "StrategyBase.flatten"
    al = [e for e in F.calls("allocate") if e.recv is not None and e.recv[0] == "elem"]
    tr = [e for e in F.calls("transact") if e.recv is not None and e.recv[0] == "elem"]
    chk.need(al and tr, "%s no longer closes children through allocate / transact" % host2)
    if pid in ("C06", "C16"):
        for e, field, name in [(x, R.VALUE, "mv") for x in al] + [(x, R.POSITION, "fi") for x in tr]:
            c = e.recv
            amt = e.args[0] if e.args else None
            ok = amt is not None and amt[0] == "neg" and amt[1][0] == "fld" and amt[1][2] == field and canon(amt[1][1]) == canon(c)
            over_all = over_all_children(c[1], SELF)
            filt = [l for l in loop_conditions(e) if not core_rules.mentions_field(l[0], "_fixed_income", SELF)]
            filt_ok = len(filt) == 1 and filt[0][1] is False and filt[0][0][0] == "zero" and core_rules.mentions_field(filt[0][0], field, c)
            chk.ob("C16.R2", ok and over_all and filt_ok, CORE, host2, "flatten-all:%s" % name, "flatten closes every child with an open position", where=e.where,
                   expected="for every child: allocate(-value) / transact(-position) unless already zero", found=short(amt, 120) if amt else "?", sample={"amount": short(amt, 120) if amt else None})
            okfi = sym.lit_holds(G(e), fld(SELF, "_fixed_income"), name == "fi")
            chk.ob("C16.R2", okfi, CORE, host2, "flatten-branch:%s" % name, "market-value strategies flatten by value, fixed-income ones by position", where=e.where)
    if pid in ("C06", "C16", "C08"):
        sw = [w for w in F.writes(R.STALE) if canon(w.value) == canon(sym.TRUE)]
        # as it is called everywhere - without arguments - flatten ends by marking the tree stale; an optional flag that defaults to doing so is fine as
        # long as no caller inside the library turns it off
        extra = [l for l in (lits(plain(sw[-1].guard)) if sw else [])]
        params_on = all(a_[0] == "param" and p_ and _default_is_true(fi2, a_[1]) for a_, p_ in extra)
        ok = bool(sw) and (not extra or params_on) and all(sw[-1].seq > e.seq for e in al + tr)
        chk.ob("C01.R6", ok, CORE, host2, "flatten-marks-stale", "flatten ends by marking the tree stale", where=fi2.where)
        if extra and params_on:
            flags = set(a_[1] for a_, _ in extra)
            for g_ in chk.prog.all_functions(modules=(CORE, "bt/algos.py", "bt/backtest.py")):
                for n_ in ast.walk(g_.node):
                    if isinstance(n_, ast.Call) and isinstance(n_.func, ast.Attribute) and n_.func.attr == "flatten":
                        passed = [k_ for k_ in n_.keywords if k_.arg in flags or k_.arg is None] + list(n_.args)
                        okc = all(isinstance(getattr(x_, "value", x_), ast.Constant) and getattr(x_, "value", x_).value is True for x_ in passed)
                        chk.ob("C01.R6", okc, g_.module, g_.qual, "flatten-called-with-refresh", "every liquidation through flatten() leaves the tree marked stale (no caller turns the mark off)",
                               where="%s:%d" % (g_.module, n_.lineno), expected="flatten() / flatten(update=True)", found=ast.unparse(n_)[:80])


def rebalance_over_time(chk, pid):
    fi = chk.prog.func(ALGOS, "RebalanceOverTime", "__call__")
    S = chk.summary(ALGOS, "RebalanceOverTime", "__call__", host="RebalanceOverTime")
    host = "RebalanceOverTime.__call__"
    chk.site()
    stores = [e for e in S.events if e.kind == "store" and e.loops and e.base[0] == "dict"]
    if not stores:
        # the targets built as one dict comprehension (or an accumulation loop the engine reads as one) handed to temp['weights']
        class _Site(object):
            pass
        for s_ in S.events:
            v = s_.value if s_.kind == "store" else None
            if v is not None and v[0] == "comp" and v[1] == "dict" and v[2][0] == "tuple" and len(v[2]) == 3 and s_.base[0] == "fld" and s_.base[2] == "temp":
                e = _Site()
                e.kind, e.index, e.value, e.where, e.seq, e.heap, e.epoch = "store", v[2][1], v[2][2], s_.where, s_.seq, s_.heap, s_.epoch
                e.guard, e.graw = tuple(s_.guard) + tuple(v[4]), s_.graw
                lp = _Site()
                lp.iter = v[3]
                e.loops = (lp,)
                stores.append(e)
    if not stores:
        # the function is there but the per-name step targets (current + (final - current) / periods left, computed from state the algo itself keeps) are not
        # built in it: reported as a violation of the property (the check cannot see the steps), not as a fault of the analysis
        chk.ob("C06.R7", False, ALGOS, host, "step-targets", "RebalanceOverTime sets, for every name of the stored targets, current + (final - current) / periods left as "
               "the weight to rebalance to", where=chk.prog.func(ALGOS, "RebalanceOverTime", "__call__").where, expected="tgt[name] = curr + (final - curr) / days_left, built from the algo's own state",
               found="no such per-name target found in __call__ (state kept in another object?)")
        return
    e = stores[-1]
    cname = e.index
    # state at the store: _weights and _days_left may have just been re-armed
    wv, dv = cur(e, SELF, "_weights"), cur(e, SELF, "_days_left")
    ref = chk.ref(ROT_REF, "RebalanceOverTime", module=ALGOS, bindings={"cname": cname, "weights": wv, "days_left": dv})
    rv = ref.exits[-1][1]
    ok = True
    for cg, leaf in sym.cases(rv):
        gg = sym.sat(tuple(G(e)) + tuple(cg))
        ok = ok and sym.equal(norm_versions(sym.restrict(e.value, gg)), norm_versions(sym.restrict(leaf, gg)))
    chk.ob("C06.R8", ok, ALGOS, host, "step-target", "each step moves the current weight by the remaining gap divided by the periods left (so the last step lands on the target)",
           where=e.where, expected=short(rv, 220), found=short(e.value, 220), sample={"step_target": short(e.value, 180)})
    it = e.loops[-1].iter
    ok = it[0] == "mcall" and it[2] == "keys" and canon(it[1]) == canon(wv)
    chk.ob("C06.R8", ok, ALGOS, host, "step-over-all-targets", "every target gets a step", where=e.where, found=short(it, 100))
    g_loop = [l for l in plain(e.guard) if sym.contains(l[0], lambda n: n[0] in ("elem", "dkey", "dval", "ditem") or (n[0] == "fld" and False))]
    extra_step = [l for l in g_loop if sym.contains(canon(l[0]), lambda n: n[0] in ("elem", "dkey", "dval", "ditem"))]
    chk.ob("C06.R8", not extra_step, ALGOS, host, "step-unconditional", "no target is left out of the step weights: a child missing from them would be CLOSED by the inner Rebalance (also one that already sits on its target)",
           where=e.where, expected="tgt[cname] set for every cname", found=sym.fmt_guard(extra_step)[:200])
    # arming, countdown, clearing
    dw = S.writes("_days_left", SELF)
    arm = [w for w in dw if canon(w.value) == canon(fld(SELF, "n")) and sym.lit_holds(sym.sat(w.guard), ("in", ("str", "weights"), ("fld", ("param", "target"), "temp", 0)), True)]
    dec = [w for w in dw if increments_by(w, ("neg", sym.ONE))]
    clr = [w for w in dw if canon(w.value) == canon(sym.NONE)]
    chk.ob("C06.R8", len(arm) == 1, ALGOS, host, "countdown-armed", "new weights re-arm the countdown with n periods", where=fi.where, found="%d" % len(arm))
    chk.ob("C06.R8", len(dec) == 1, ALGOS, host, "countdown-decremented-once", "the countdown is decremented once per call", where=fi.where, found="%d" % len(dec))
    okc = bool(clr) and all(any(p and a[0] == "zero" and core_rules.mentions_field(a, "_days_left", SELF) for a, p in G(w)) or any(p and a[0] == "zero" for a, p in G(w)) for w in clr)
    chk.ob("C06.R8", okc, ALGOS, host, "countdown-cleared-at-zero", "the state is cleared when the countdown reaches zero", where=fi.where)
    rb = [c for c in S.events if c.kind == "call" and c.name == "<value>" and c.extra is not None and c.extra[0] == "fld" and c.extra[2] == "_rb"]
    ok = bool(rb) and all(c.seq > e.seq for c in rb)
    tw = [s_ for s_ in S.events if s_.kind == "store" and canon(s_.index) == canon(("str", "weights")) and s_.base[0] == "fld" and s_.base[2] == "temp"]
    ok = ok and bool(tw) and tw[-1].value[0] in ("dict", "loopval") or (ok and bool(tw))
    chk.ob("C06.R8", ok, ALGOS, host, "delegates-to-rebalance", "the step targets are handed to the real Rebalance", where=fi.where)
    I = chk.summary(ALGOS, "RebalanceOverTime", "__init__", host="RebalanceOverTime")
    okr = any(w.field == "_rb" and w.value[0] == "new" and w.value[1] == "Rebalance" for w in I.writes(None, SELF))
    chk.ob("C06.R8", okr, ALGOS, "RebalanceOverTime.__init__", "inner-rebalance", "the delegate is a Rebalance algo", where=I.fn.where)


def run(chk):
    chk.explain("C06: Rebalance captures its base once before holdings change (reference model in normal form), closes exactly the non-target children with a non-zero value, "
                "rebalances every target against that base with updates deferred and refreshes the root at the end; StrategyBase.rebalance sends weight x base minus the child's "
                "current holding; close/flatten send minus value (minus position for fixed income) read after the child's own flatten; allocate spreads by child weight; "
                "RebalanceOverTime's step target is current + gap / periods left with a correct countdown.")
    chk.assume("'within one trading unit plus costs' is a numeric clause decided by C05's structure, not here")
    rebalance_algo(chk, "C06")
    strategy_rebalance(chk, "C06")
    close_flatten(chk, "C06")
    core_rules.strategy_allocate_rules(chk, "C06")
    core_rules.strategy_update(chk, "C06")
    core_rules.fresh_read_rules(chk, "C06")
    rebalance_over_time(chk, "C06")
    from . import backtest_rules
    backtest_rules.adjust_call_sites(chk, "C06")  # capital injected before Rebalance must be visible in the base it captures
    from .c05 import settings_reach_every_node

    settings_reach_every_node(chk, "C06")  # exact targets need the fractional mode on every security of the tree
