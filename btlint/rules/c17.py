"""C17 - fixed-income strategies account by notional, coupons and carry (DESIGN 5/C17)."""
from .. import sym
from ..evalfn import SELF
from ..sym import canon
from . import c06, core_rules
from .common import over_all_children, ALGOS, BACKTEST, CORE, G, Roles, fld, short
from .core_rules import bound_args, equal


def run(chk):
    chk.explain("C17: (R1) notional value per node class (market value / position / zero / sum of absolute child notionals), field and row; (R2) coupon = position x coupon[inow], "
                "holding cost on the absolute position with the long/short schedule, parked carry = coupon - cost; (R3) carry is swept into the parent before the child's update on a "
                "new date (paid next date); (R4) additive index PAR x (value change net of flows) / notional; (R5) notional-based rebalance, Rebalance base selection, SetNotional row "
                "at now, transact spread by weight; (R6) the renormalised result formula.")
    core_rules.security_update(chk, "C17")
    core_rules.coupon_accrual(chk, "C17")
    core_rules.strategy_update(chk, "C17")
    c06.strategy_rebalance(chk, "C17")
    c06.rebalance_algo(chk, "C17")
    c06.close_flatten(chk, "C17")
    core_rules.fresh_read_rules(chk, "C17")
    set_notional(chk)
    strategy_transact(chk)
    renormalized(chk)
    from . import backtest_rules
    # coupon, cost and notional tables reach the nodes and SetNotional with their own dates: the backtest only prepends the synthetic first row (a schedule expanded to every date
    # is a notional of zero between the scheduled dates)
    backtest_rules.process_data(chk, "C17")
    backtest_rules.additional_data_only_prepended(chk)


def set_notional(chk):
    S = chk.summary(ALGOS, "SetNotional", "__call__", host="SetNotional")
    host = "SetNotional.__call__"
    T = ("param", "target")
    now = ("fld", T, "now", 0)
    st = [e for e in S.events if e.kind == "store" and canon(e.index) == canon(("str", "notional_value"))]
    ok = False
    for e in st:
        v = e.value
        ok = v[0] == "sub" and v[1][0] == "attr" and v[1][2] == "loc" and canon(v[2]) == canon(now) and sym.lit_holds(G(e), ("in", now, ("attr", v[1][1], "index")), True)
    chk.ob("C17.R5", ok, ALGOS, host, "notional-row-at-now", "the rebalancing base is the notional series' row at the current date (and the algo fails when there is none)", where=S.fn.where)
    rets = S.return_cases()
    okr = any(canon(v) == canon(sym.FALSE) for g, v in rets) and any(canon(v) == canon(sym.TRUE) for g, v in rets)
    chk.ob("C17.R5", okr, ALGOS, host, "notional-missing-date-fails", "a date without a notional stops the stack", where=S.fn.where)


def strategy_transact(chk):
    R = Roles(chk.prog)
    S = chk.summary(CORE, "StrategyBase", "transact", host="StrategyBase", no_inline=("transact", "_create_child_if_needed", "update"))
    host = "StrategyBase.transact"
    q = ("param", "q")
    spread = [e for e in S.calls("transact") if e.recv is not None and e.recv[0] == "elem"]
    ok = False
    for e in spread:
        a = e.args[0] if e.args else None
        ok = a is not None and equal(a, ("*", q, ("fld", e.recv, R.WEIGHT, 0))) and over_all_children(e.recv[1], SELF) and not e.loops[-1].filter
    chk.ob("C17.R5", ok, CORE, host, "transact-spread-by-weight", "a notional transacted on a strategy is spread over its children in proportion to their weights", where=S.fn.where)
    direct = [e for e in S.calls("transact") if e.recv is not None and e.recv[0] == "sub"]
    ok = bool(direct) and direct[0].args and canon(direct[0].args[0]) == canon(q)
    chk.ob("C17.R5", ok, CORE, host, "transact-child-amount", "a notional transacted on a named child is passed on unchanged", where=S.fn.where)
    for d in direct:
        flags = dict((k, v) for k, v in (d.kwargs or {}).items() if k in ("update_self", "update"))
        okf = all(canon(v) in (canon(sym.TRUE), canon(("param", "update"))) for v in flags.values()) and len(d.args) <= 1
        chk.ob("C02.R1", okf, CORE, host, "transact-child-refreshes", "the named child trades at its current price: it is left to refresh itself before the trade (an idle child may lag several dates "
               "behind) and to mark the tree stale after it", where=d.where, expected="child.transact(q)", found=", ".join("%s=%s" % (k, short(v)) for k, v in flags.items()))


PRICE_REF = '''
def ref(self, s, v):
    returns = s.values.diff() - s.flows
    prices = bt.core.PAR * (1.0 + (returns / v).cumsum())
    return prices
'''


def renormalized(chk):
    S = chk.summary(BACKTEST, "RenormalizedFixedIncomeResult", "_price", host="RenormalizedFixedIncomeResult")
    host = "RenormalizedFixedIncomeResult._price"
    ref = chk.ref(PRICE_REF, "RenormalizedFixedIncomeResult", module=BACKTEST)
    rv = ref.exits[-1][1]
    rets = S.return_cases()
    # the parameters are matched by position (the last two: the strategy and its normaliser), whatever they are called
    pc, pr = [p_ for p_ in S.fn.params if p_ != "self"], [p_ for p_ in ref.fn.params if p_ != "self"]
    if len(pc) == len(pr):
        rv = sym.substitute(rv, dict((("param", b_), ("param", a_)) for a_, b_ in zip(pc, pr) if a_ != b_))
    ok = len(rets) == 1 and canon(rets[0][1]) == canon(rv)
    chk.ob("C17.R6", ok, BACKTEST, host, "renormalised-price", "the renormalised index is PAR x (1 + cumulative (value change - flows) / normaliser)", where=S.fn.where,
           expected=short(rv, 200), found=short(rets[0][1], 200) if rets else "?", sample={"price": short(rets[0][1], 160) if rets else None})
    st = [e for e in S.events if e.kind == "store" and e.base[0] == "attr" and e.base[2] == "iloc"]
    par = sym.num(float(chk.prog.const_value(CORE, "PAR") or 100.0))
    ok = bool(st) and canon(st[0].index) == canon(sym.ZERO) and sym.equal(st[0].value, par)
    chk.ob("C17.R6", ok, BACKTEST, host, "renormalised-first-row", "the renormalised index starts at PAR", where=S.fn.where)
    I = chk.summary(BACKTEST, "RenormalizedFixedIncomeResult", "__init__", host="RenormalizedFixedIncomeResult")
    ok = any(True for e in I.raises if any((not p) and sym.contains(a, lambda n: (n[0] == "fld" and n[2] == "_fixed_income") or (n[0] == "attr" and n[2] == "fixed_income")) for a, p in e.guard))
    chk.ob("C17.R6", ok, BACKTEST, "RenormalizedFixedIncomeResult.__init__", "non-fi-rejected", "backtests that are not on a fixed-income strategy are rejected", where=I.fn.where)
    # each backtest is renormalised with ITS OWN normaliser: when a dict is given, the one stored under the backtest's name
    nv = ("param", "normalizing_value")
    is_dict = canon(("call", "isinstance", (nv, ("func", "dict")), ()))
    calls = []
    vals = [getattr(e, "value", None) for e in I.events] + [a for e in I.events for a in (e.args or ())] + [v_ for e in I.events for v_ in (e.kwargs or {}).values()]
    for v in vals:
        if isinstance(v, tuple):
            for n in sym.walk(v):
                if n[0] in ("fcall",) and n[2] == "_price" and len(n[3]) == 2:
                    calls.append((n[3][0], n[3][1]))
                elif n[0] == "resof" and len(n) > 3 and n[1] == "_price" and len(n[3]) == 2:
                    calls.append((n[3][0], n[3][1]))
    for e in I.events:
        if e.kind == "call" and e.name == "_price" and len(e.args or ()) == 2:
            calls.append((e.args[0], e.args[1]))
    ok = bool(calls)
    found = "no call of _price found"
    for s_arg, v_arg in calls:
        owner = s_arg[1] if (s_arg[0] in ("attr", "fld") and s_arg[2] == "strategy") else None
        vd = canon(sym.restrict(v_arg, sym.sat(((is_dict, True),))))
        by_name = (owner is not None and vd[0] == "sub" and isinstance(vd[2], tuple) and vd[2][0] in ("attr", "fld") and vd[2][2] == "name" and canon(vd[2][1]) == canon(owner)
                   and sym.contains(vd[1], lambda n: n == nv or (n[0] == "fld" and n[2] in ("_normalizing_value", "normalizing_value"))))
        if not by_name:
            ok = False
            found = short(vd, 160)
    chk.ob("C17.R6", ok, BACKTEST, "RenormalizedFixedIncomeResult.__init__", "normaliser-by-name", "each backtest's index is renormalised with its own normaliser: the entry of the "
           "dict stored under that backtest's name (not the entry at its position)", where=I.fn.where, expected="normalizing_value[x.name] for backtest x", found=found)
    core_rules.security_setup_rules(chk, "C17")
    # weights reported for a fixed-income backtest are fractions of the ROOT's notional
    from .algo_equiv import check_equiv as _ce
    from .c18 import REFS as _R18

    for mod, cls, name, src, what in _R18:
        if cls == "Backtest" and name in ("weights", "security_weights"):
            _ce(chk, "C17.R5", mod, cls, name, src, "report-formula", "%s.%s: %s" % (cls, name, what), limit=14)
