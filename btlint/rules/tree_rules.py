"""Rules over setup / tree wiring / Backtest construction (C09, C10 guards, C11, C16 reset, C19)."""

import ast

from .. import sym
from ..evalfn import SELF
from ..source import AnalysisError
from ..sym import canon
from .common import selects_strategies, over_all_children, ALGOS, BACKTEST, CORE, G, Roles, dominates, fld, guard_subset, has_lit, plain, short
from . import core_rules
from .core_rules import bound_args, mentions_field


def setup_summary(chk):
    return chk.summary(CORE, "StrategyBase", "setup", host="StrategyBase", no_inline=("setup", "adjust", "update"))


def shadow_creation(chk, pid):
    """C09.R1 / C09.R2: the shadow copy of a sub-strategy."""
    S = setup_summary(chk)
    fi = S.fn
    host = "StrategyBase.setup"
    chk.site()
    pw = S.writes("_paper", SELF)
    chk.need(pw, "%s no longer creates the shadow copy" % host)
    w = pw[-1]
    paper = w.value
    ok = paper[0] == "call" and paper[1] == "deepcopy" and len(paper[2]) == 1 and paper[2][0] == SELF and not paper[3]
    chk.ob("C09.R1", ok, CORE, host, "shadow-is-plain-deepcopy", "the shadow is a full, independent deep copy of the sub-strategy (nothing shared with the live node, e.g. no memo)",
           where=w.where, expected="deepcopy(self)", found=short(paper, 120), sample={"shadow": short(paper, 100)})
    g = G(w)
    nonroot = any((not p) and a[0] in ("is", "eq", "cmp") and mentions_field(a, "parent", SELF) for a, p in g)
    extra = [l for l in plain(w.guard) if not (mentions_field(l[0], "parent", SELF) or mentions_field(l[0], "_fixed_income", SELF))]
    chk.ob("C09.R1", nonroot and not extra, CORE, host, "shadow-for-every-non-root", "every non-root strategy gets a fresh shadow at every setup", where=w.where, found=sym.fmt_guard(w.guard))
    ws = {x.field: x for x in S.events if x.kind == "write" and canon(x.obj) == canon(paper)}
    for f_, what in (("parent", "its own parent"), ("root", "its own root")):
        ok = f_ in ws and canon(ws[f_].value) == canon(paper) and ws[f_].seq < w.seq
        chk.ob("C09.R1", ok, CORE, host, "shadow-rerooted:%s" % f_, "the shadow is %s (a stand-alone tree)" % what, where=fi.where)
    # the copy carries a deep copy of the whole live tree with it (deepcopy follows .parent): the root pointer of every node BELOW the shadow still names that dead copy
    # unless the re-rooting descends - a node whose root is the dead copy marks the wrong tree stale and, when an algo refreshes `target.root`, updates a tree that was
    # never set up (a sub-strategy two levels down raises on its first rebalance)
    import ast as _ast

    def _sets_root(f):
        # a method that stores one of its parameters into self.root (whatever it is called)
        ps = set(f.params)
        return any(isinstance(n, _ast.Assign) and any(isinstance(t, _ast.Attribute) and t.attr == "root" and isinstance(t.value, _ast.Name) and t.value.id == "self" for t in n.targets)
                   and isinstance(n.value, _ast.Name) and n.value.id in ps for n in _ast.walk(f.node))
    rooters = set(f.name for f in chk.prog.all_functions(modules=(CORE,)) if _sets_root(f)) | {"_set_root"}
    below = [e for e in S.events if e.seq < w.seq and sym.contains(e.recv if e.kind == "call" else e.obj if e.kind == "write" else None, lambda n: n == paper or canon(n) == canon(paper))
             and ((e.kind == "call" and e.name in rooters and any(canon(a) == canon(paper) for a in (e.args or ())) and canon(e.recv) != canon(paper))
                  or (e.kind == "write" and e.field == "root" and canon(e.value) == canon(paper) and canon(e.obj) != canon(paper)))]
    chk.ob("C09.R1", bool(below), CORE, host, "shadow-subtree-rerooted", "every node below the shadow is re-rooted at the shadow too (the copy is a stand-alone TREE, not a stand-alone node)",
           where=ws["root"].where if "root" in ws else fi.where, expected="paper._set_root(paper) (or an equivalent descent over the copy's children)", found="only the copy's own root is set")
    ok = "_paper_trade" in ws and canon(ws["_paper_trade"].value) == canon(sym.FALSE)
    chk.ob("C09.R1", ok, CORE, host, "shadow-not-paper-trading", "the shadow itself computes its own index (no shadow of the shadow)", where=fi.where)
    calls = [e for e in S.events if e.kind == "call" and e.recv is not None and canon(e.recv) == canon(paper)]
    other_calls = [e for e in calls if e.name not in ("setup", "adjust") and not (e.inlined and e.name.startswith("_") and not e.name.startswith("__"))]
    other_writes = [x for x in S.events if x.kind == "write" and canon(x.obj) == canon(paper) and x.field not in ("parent", "root", "_paper_trade")
                    and not (isinstance(x.value, tuple) and x.value and x.value[0] == "fld" and x.value[2] == x.field and canon(x.value[1]) == canon(paper))]  # a field stored back into itself changes nothing
    chk.ob("C09.R1", not other_calls and not other_writes, CORE, host, "shadow-keeps-settings",
           "nothing else is changed on the shadow: it must run with exactly the settings (position mode, commissions, algos) of the live sub-strategy", where=fi.where,
           expected="only parent / root / _paper_trade, setup() and adjust()", found="; ".join([e.name + "()" for e in other_calls] + ["." + x.field for x in other_writes]))
    st = [e for e in calls if e.name == "setup"]
    ad = [e for e in calls if e.name == "adjust"]
    universe = ("param", "universe")
    orig = None
    for x in S.writes("_original_data", SELF):
        orig = x.value
    ok = bool(st) and st[0].args and (canon(st[0].args[0]) == canon(universe) or (orig is not None and canon(st[0].args[0]) == canon(orig))) and "**" in (st[0].kwargs or {})
    chk.ob("C09.R1", ok, CORE, host, "shadow-setup-original-data", "the shadow is set up with the original (unfiltered) data and the same settings", where=fi.where,
           expected="paper.setup(self._original_data, **kwargs)", found=repr(st[0])[:140] if st else "no setup")
    amount = None
    for x in S.writes("_paper_amount", SELF):
        amount = x.value
    ok = bool(ad) and bool(st) and st[0].seq < ad[0].seq < w.seq and amount is not None and ad[0].args and canon(ad[0].args[0]) == canon(amount)
    flow = bound_args(ad[0], chk.prog).get("flow", sym.TRUE) if ad else None
    chk.ob("C09.R1", ok and flow is not None and canon(flow) == canon(sym.TRUE), CORE, host, "shadow-funded-as-flow",
           "the shadow is funded with the fixed notional as a flow, after its setup and before it is installed", where=fi.where, expected="setup -> adjust(_paper_amount) -> self._paper = paper",
           found=", ".join(e.name for e in calls))
    # R2 constant agreement with Backtest's default initial capital
    bi = chk.prog.func(BACKTEST, "Backtest", "__init__")
    dflt = bi.defaults.get("initial_capital")
    dv = ast.literal_eval(dflt) if dflt is not None else None
    av = sym.to_rat(amount).const_value() if amount is not None else None
    ok = dv is not None and av is not None and float(av) == float(dv)
    chk.ob("C09.R2", ok, CORE, host, "shadow-notional-equals-default-capital", "the shadow's notional equals the default initial capital of a stand-alone backtest", where=fi.where,
           expected="Backtest(initial_capital=%s)" % dv, found=short(amount) if amount is not None else "?", sample={"paper_amount": short(amount) if amount is not None else None, "default": dv})


def _mentions(atom, e):
    """the literal only tests the pushed argument itself (`if self.commissions is not None`)"""
    a0 = e.args[0] if e.args else None
    return a0 is not None and sym.contains(atom, lambda n: n == a0 or (isinstance(n, tuple) and canon(n) == canon(a0)))


def settings_pushed_at_construction(chk, pid):
    """C09 / C19: integer positions and commissions are pushed at construction time - before setup copies the shadows."""
    S = chk.summary(BACKTEST, "Backtest", "__init__", host="Backtest")
    host = "Backtest.__init__"
    chk.site()
    calls = [e for e in S.events if e.kind == "call" and e.recv is not None and ((e.recv[0] == "fld" and e.recv[2] == "strategy") or (e.recv[0] == "call" and e.recv[1] == "deepcopy") or e.recv == ("param", "strategy"))]
    ip = [e for e in calls if e.name == "use_integer_positions"]
    sw_ = S.writes("strategy", SELF)
    ok = bool(ip) and ip[0].args and canon(ip[0].args[0]) == canon(("param", "integer_positions")) and bool(sw_) and guard_subset(ip[0].guard, sw_[0].guard)
    ok = ok and (ip[0].recv != ("param", "strategy") or ip[0].seq < sw_[0].seq)
    chk.ob("C19.R2", ok, BACKTEST, host, "integer-positions-pushed-at-construction",
           "the position mode is pushed down the tree when the backtest is built, i.e. before setup takes the shadow copies of sub-strategies", where=S.fn.where,
           expected="self.strategy.use_integer_positions(integer_positions) in __init__", found="%d calls" % len(ip))
    sc = [e for e in calls if e.name == "set_commissions"]
    ok = bool(sc) and sc[0].args and canon(sc[0].args[0]) == canon(("param", "commissions")) and has_lit(sc[0].guard, ("isnone", ("param", "commissions")), False)
    R = chk.summary(BACKTEST, "Backtest", "run", host="Backtest")
    setups = [e for e in R.events if e.kind == "call" and e.name == "setup" and e.recv is not None and e.recv[0] == "fld" and e.recv[2] == "strategy"]
    pushes = [e for e in R.events if e.kind == "call" and e.name in ("use_integer_positions", "set_commissions")]
    early = [e for e in pushes if setups and e.seq < setups[0].seq and guard_subset([l for l in plain(e.guard) if not _mentions(l[0], e)], setups[0].guard)]
    if not ok and not sc:
        # the other place that is early enough: in run(), ahead of the strategy's setup, from the constructor argument kept on the backtest
        for e in early:
            a0 = e.args[0] if e.args else None
            if e.name != "set_commissions" or a0 is None or a0[0] != "fld" or canon(a0[1]) != canon(SELF):
                continue
            kept = [w for w in S.writes(a0[2], SELF)]
            ok = (len(kept) == 1 and canon(kept[0].value) == canon(("param", "commissions")) and bool(sw_) and guard_subset(kept[0].guard, sw_[0].guard)
                  and has_lit(e.guard, ("isnone", ("fld", SELF, a0[2], 0)), False) and e.recv is not None and e.recv[0] == "fld" and e.recv[2] == "strategy")
    chk.ob("C19.R2", ok, BACKTEST, host, "commissions-pushed-at-construction", "a commission function is pushed down the tree when the backtest is built (or, at the latest, ahead of the strategy's setup)",
           where=S.fn.where)
    late = [e for e in pushes if e not in early]
    chk.ob("C19.R2", not late, BACKTEST, "Backtest.run", "no-settings-after-setup", "no setting is pushed after setup (the shadows would not see it)", where=R.fn.where)


def setup_guards(chk, pid):
    """C10.R1: fixed-income child under a market-value parent is refused before any state is built."""
    S = setup_summary(chk)
    host = "StrategyBase.setup"
    rs = [e for e in S.raises]
    ok = False
    for e in rs:
        g = G(e)
        me = sym.lit_holds(g, fld(SELF, "_fixed_income"), True)
        par = sym.lit_holds(g, ("fld", fld(SELF, "parent"), "_fixed_income", 0), False)
        ok = ok or (me and par and len(plain(e.guard)) == 2)
        first_state = [w for w in S.writes(None, SELF) if w.field not in ("_original_data", "_setup_kwargs")]
        before = all(e.seq < w.seq for w in first_state)
        ok = ok and before
    chk.ob("C10.R1", ok, CORE, host, "guard:fi-under-mv-parent", "a fixed-income strategy directly under a market-value PARENT is refused with an error before anything is built",
           where=S.fn.where, expected="raise under self.fixed_income and not self.parent.fixed_income", found="; ".join(sym.fmt_guard(e.guard) for e in rs) or "no raise",
           sample={"raises": [sym.fmt_guard(e.guard) for e in rs]})


def setup_resets(chk, pid):
    """C16.R1: the bankruptcy flag is cleared at setup and at construction."""
    S = setup_summary(chk)
    bw = [w for w in S.writes("bankrupt", SELF)]
    ok = bool(bw) and canon(bw[-1].value) == canon(sym.FALSE) and not [l for l in plain(bw[-1].guard) if not mentions_field(l[0], "_fixed_income")]
    chk.ob("C16.R1", ok, CORE, "StrategyBase.setup", "bankrupt-reset-at-setup", "setting a strategy up again clears the bankruptcy flag (a re-capitalised strategy runs its algos)",
           where=S.fn.where, expected="self.bankrupt = False in setup", found="%d writes" % len(bw))
    I = chk.summary(CORE, "StrategyBase", "__init__", host="StrategyBase", depth=3)
    bw = I.writes("bankrupt", SELF)
    ok = bool(bw) and canon(bw[-1].value) == canon(sym.FALSE)
    chk.ob("C16.R1", ok, CORE, "StrategyBase.__init__", "bankrupt-false-initially", "a new strategy is not bankrupt", where=I.fn.where)


def universe_rules(chk, pid):
    """C19.R4 / C11.R2: the strategy's own universe is a copy, filtered to the declared tickers plus one NaN column per sub-strategy."""
    S = setup_summary(chk)
    host = "StrategyBase.setup"
    chk.site()
    universe = ("param", "universe")
    uw = S.writes("_universe", SELF)
    chk.need(uw, "%s no longer assigns the strategy's universe" % host)
    u = uw[-1].value
    ocp = fld(SELF, "_original_children_are_present")
    if pid in ("C11", "C19"):
        # every case is a copy made here
        ok = True
        for g, leaf in sym.cases(u):
            ok = ok and _is_copy_of(leaf, universe)
        chk.ob("C11.R2", ok, CORE, host, "universe-is-a-copy", "the strategy's universe is its own copy of the data: later in-place column writes never reach the caller's frame",
               where=uw[-1].where, expected="universe.copy() / universe[cols].copy()", found=short(u, 200), sample={"universe": short(u, 160)})
    if pid == "C19":
        cases = sym.cases(u)
        flt = [leaf for g, leaf in cases if sym.lit_holds(sym.sat(g), ocp, True)]
        full = [leaf for g, leaf in cases if sym.lit_holds(sym.sat(g), ocp, False)]
        ok = len(flt) == 1 and len(full) == 1
        chk.ob("C19.R4", ok, CORE, host, "universe-filter-gate", "the universe is filtered exactly when children were declared (all tickers when none were)", where=uw[-1].where,
               expected="filter under _original_children_are_present", found=short(u, 200))
        if ok:
            f = flt[0]
            # universe[valid_filter] with valid_filter = the data's columns that are declared tickers, in the data's order
            sel = None
            for n in sym.walk(f):
                if n[0] == "sub" and canon(n[1]) == canon(universe):
                    sel = n[2]
            okf = sel is not None and sel[0] == "comp" and sel[1] == "list" and canon(sel[3]) == canon(("attr", universe, "columns")) and len(sel[4]) == 1 and sel[4][0][1] is True and \
                sel[4][0][0][0] == "in" and sel[4][0][0][2] == canon(fld(SELF, "_universe_tickers"))
            chk.ob("C19.R4", okf, CORE, host, "universe-filter", "a strategy's universe holds exactly its declared tickers that are present in the data, in the data's column order",
                   where=uw[-1].where, expected="[c for c in universe.columns if c in self._universe_tickers]", found=short(sel, 200) if sel else "?", sample={"filter": short(sel, 160) if sel else None})
            chk.ob("C19.R4", _is_copy_of(full[0], universe) and full[0][0] == "mcall" and canon(full[0][1]) == canon(universe), CORE, host, "universe-unfiltered", "without declared children the universe is the whole data",
                   where=uw[-1].where)
        # one NaN column per strategy child
        st = [e for e in S.events if e.kind == "store" and e.loops and e.loops[-1].iter[0] == "fld" and e.loops[-1].iter[2] == "_strat_children"]
        ok = bool(st) and st[0].value == ("nan",) and canon(st[0].index) == canon(st[0].loops[-1].elem)
        chk.ob("C19.R4", ok, CORE, host, "strategy-child-columns", "one NaN column per sub-strategy is added (filled with the child's index by update)", where=S.fn.where)
        # children are set up with the unfiltered data and the same kwargs
        cs = [e for e in S.calls("setup") if e.recv is not None and e.recv[0] == "elem"]
        ok = bool(cs) and canon(cs[0].args[0]) == canon(universe) and "**" in (cs[0].kwargs or {}) and over_all_children(cs[0].recv[1], SELF)
        chk.ob("C19.R4", ok, CORE, host, "children-setup-unfiltered", "children are set up with the unfiltered data and the same settings", where=S.fn.where)
    if pid == "C11":
        # aliases of the caller's data are never written
        for e in S.events:
            if e.kind == "store":
                b = e.base
                root = b
                while root[0] in ("attr", "sub", "mcall") and root[0] != "param":
                    if root[0] == "mcall" and root[2] == "copy":
                        break
                    root = root[1]
                ok = not (root == universe)
                chk.ob("C11.R2", ok, CORE, host, "no-write-into-caller-data", "setup never writes into the data frame it was given", where=e.where, found=short(e.base, 120))


def _is_copy_of(v, universe):
    if v[0] == "mcall" and v[2] == "copy":
        return True
    if v[0] == "call" and v[1] in ("pd.DataFrame", "pandas.DataFrame") and v[2]:
        return _is_copy_of(v[2][0], universe)
    if v[0] == "loopval":
        return _is_copy_of(v[3], universe) if isinstance(v[3], tuple) else False
    return False


def add_children_rules(chk, pid):
    """C19.R1 / C11.R3: child registration."""
    fi = chk.prog.func(CORE, "Node", "_add_children")
    S = chk.summary(CORE, "Node", "_add_children", host="Node", no_inline=("_set_root", "use_integer_positions"))
    host = "Node._add_children"
    chk.site()
    dc = ("param", "dc")
    if pid == "C05":
        attach = [w for w in S.events if w.kind == "write" and w.field == "parent" and canon(w.value) == canon(SELF)]
        chk.need(attach, "%s no longer sets the child's parent" % host)
        a = attach[-1]
        ip = core_rules.pushed_into_subtree(chk, S, a.obj, fld(SELF, "integer_positions"), "integer_positions", a)
        chk.ob("C19.R1", ip is not None, CORE, host, "attach:integer-positions", "an attached child inherits the position mode of the node it is attached to", where=a.where,
               expected="self.integer_positions handed to a method of the child that stores it on the child and on every node below it")
    if pid == "C19":
        dup = [e for e in S.raises if any(p and a[0] == "in" for a, p in e.guard)]
        kinds = set()
        for e in dup:
            for a, p in e.guard:
                if p and a[0] == "in":
                    if mentions_field(a, "_universe_tickers", SELF):
                        kinds.add("string")
                    if mentions_field(a, "children", SELF):
                        kinds.add("node")
        chk.ob("C19.R1", kinds == {"string", "node"}, CORE, host, "duplicate-names-raise", "sibling names are unique: duplicates raise for string children and for node children",
               where=fi.where, found=",".join(sorted(kinds)))
        attach = [w for w in S.events if w.kind == "write" and w.field == "parent" and canon(w.value) == canon(SELF)]
        chk.need(attach, "%s no longer sets the child's parent" % host)
        a = attach[-1]
        c = a.obj
        attach_obligations(chk, S, a, host, "C19.R1")
        sc = [e for e in S.events if e.kind == "call" and e.name == "append" and e.recv is not None and e.recv[0] == "fld" and e.recv[2] == "_strat_children"]
        hs = [w for w in S.writes("_has_strat_children", SELF) if canon(w.value) == canon(sym.TRUE)]
        ok = bool(sc) and bool(hs) and any(selects_strategies(a, p) for a, p in sc[0].guard)
        chk.ob("C19.R1", ok, CORE, host, "strategy-children-registered", "strategy children are flagged and listed (they get a universe column)", where=fi.where)
        ut = [e for e in S.events if e.kind == "call" and e.name == "append" and e.recv is not None and e.recv[0] == "fld" and e.recv[2] == "_universe_tickers"]
        ok = bool(ut) and any((not p) and a[0] == "in" and mentions_field(a, "_universe_tickers", SELF) for a, p in ut[0].guard)
        chk.ob("C19.R1", ok, CORE, host, "tickers-registered-once", "every non-strategy child's name is added to the universe tickers once", where=fi.where)
    if pid in ("C19", "C11"):
        for e in S.events:
            if e.kind == "store" and e.base[0] == "fld" and e.base[2] in ("_lazy_children", "children") and canon(e.base[1]) == canon(SELF):
                gdc = sym.sat(tuple(G(e)) + ((dc, True),))
                v = sym.restrict(e.value, gdc)

                def is_copy(x, depth=0):
                    # a node created here, a deepcopy, or an element of a list this function built out of such
                    if not isinstance(x, tuple) or not x or depth > 4:
                        return False
                    if x[0] == "new" or (x[0] == "call" and x[1] == "deepcopy"):
                        return True
                    if x[0] == "ite" and len(x) == 4:
                        return is_copy(x[2], depth + 1) and is_copy(x[3], depth + 1)
                    if x[0] == "elem" and isinstance(x[1], tuple) and x[1]:
                        src = sym.restrict(x[1], gdc)
                        if src[0] == "ite" and len(src) == 4:
                            return all(is_copy(("elem", s_, x[2]), depth + 1) for s_ in src[2:])
                        if src[0] == "comp" and len(src) == 5:
                            body = sym.restrict(src[2], gdc)
                            leaves = [l_ for _, l_ in sym.cases(body)]
                            return all(is_copy(l_, depth + 1) or l_[0] in ("str", "item", "dkey", "elem") and not _nodeish(l_) for l_ in leaves)
                    return False

                def _nodeish(l_):
                    return False
                okc = all(is_copy(l_) for _, l_ in sym.cases(v)) if v[0] == "ite" else is_copy(v)
                chk.ob("C19.R1" if pid == "C19" else "C11.R3", okc, CORE, host, "registered-child-is-a-copy:%s" % e.base[2],
                       "with dc=True every node registered under this parent - attached at once or kept for lazy creation - is a copy of the object passed in (templates can be shared between parents)",
                       where=e.where, expected="deepcopy(c) under dc", found=short(v, 120))
    if pid in ("C11", "C19"):
        dcs = [w for w in S.events if w.kind == "write" and w.field in ("name", "parent") and w.obj != SELF]
        ok = True
        for w in dcs:
            o = w.obj
            under_dc = sym.lit_holds(G(w), dc, True)
            copied = sym.contains(o, lambda n: n[0] == "call" and n[1] == "deepcopy")
            restricted = sym.restrict(o, sym.sat([(dc, True)]))
            copied_dc = sym.contains(restricted, lambda n: n[0] == "call" and n[1] == "deepcopy")
            ok = ok and copied_dc
        chk.ob("C11.R3", ok and bool(dcs), CORE, host, "children-copied-before-written", "with dc=True every child object is deep-copied before it is renamed or re-parented",
               where=fi.where, expected="c = deepcopy(c) before c.name / c.parent are written", found="%d writes on child objects" % len(dcs))


def declared_children_flag(chk):
    """After construction the node knows whether the caller declared children up front (setup limits the universe to them exactly then): judged
    on the state the constructor ends in, whichever of __init__ and its registration helper sets the flag."""
    from .common import GX, final_value, lits
    fi = chk.prog.func(CORE, "Node", "__init__")
    S = chk.summary(CORE, "Node", "__init__", host="Node")
    host = "Node.__init__"
    chk.site()
    children = ("param", "children")
    none_c = canon(("isnone", children))
    some = canon(("cmp", ">=", ("call", "len", (children,), ()), sym.ONE))
    flag = "_original_children_are_present"
    for label, scen, want in (("none", ((none_c, True),), False), ("some", ((none_c, False), (some, True)), True), ("empty", ((none_c, False), (some, False)), False)):
        verdicts = []
        for st, _ in S.exits:
            g = sym.sat(tuple(lits(st.guard)) + scen)
            if sym.inconsistent(g):
                continue
            v = final_value(st, SELF, flag)
            for cg, leaf, raws in sym.split_cases(sym.restrict(v, g), raw=True):
                gg = GX(st, tuple(cg) + scen, raws)
                if sym.inconsistent(gg):
                    continue
                leaf = canon(sym.restrict(leaf, gg))
                if leaf in (canon(sym.TRUE), canon(sym.FALSE)):
                    verdicts.append(leaf == canon(sym.TRUE))
                elif sym.lit_holds(gg, leaf, True):
                    verdicts.append(True)
                elif sym.lit_holds(gg, leaf, False):
                    verdicts.append(False)
                else:
                    verdicts.append(None)
        ok = bool(verdicts) and all(x is want for x in verdicts)
        if label == "none":
            _late_children_do_not_declare(chk)
        chk.ob("C19.R1", ok, CORE, host, "declared-children-flag:%s" % label,
               "a node remembers that children were declared up front exactly when a non-empty collection was passed to its constructor (an empty list or dict declares nothing)",
               where=fi.where, expected=str(want), found=", ".join(str(x) for x in verdicts)[:120])


def _late_children_do_not_declare(chk):
    """children attached after construction (dc=False: a node created with parent=..., a lazily created child) are not declared children"""
    A = chk.summary(CORE, "Node", "_add_children", host="Node", no_inline=("_set_root", "use_integer_positions"))
    dc = ("param", "dc")
    bad = [w for w in A.events if w.kind == "write" and w.field == "_original_children_are_present" and canon(w.value) != canon(sym.FALSE)
           and not sym.inconsistent(sym.sat(tuple(G(w)) + ((dc, False),)))]
    chk.ob("C19.R1", not bad, CORE, "Node._add_children", "late-children-do-not-declare",
           "attaching a node later (dc=False) never turns a node into one that declared its children: its universe stays unrestricted", where=bad[0].where if bad else A.fn.where,
           expected="the flag is only set for the children handed to the constructor", found="; ".join(sym.fmt_guard(plain(w.guard))[:80] for w in bad))


def attach_obligations(chk, S, a, host, rule, pid="C19"):
    """The companions of `c.parent = self` (event a): root and position mode pushed into the subtree, children dict and value list updated together."""
    c = a.obj
    sr = core_rules.pushed_into_subtree(chk, S, c, fld(SELF, "root"), "root", a)
    chk.ob(rule, sr is not None, CORE, host, "attach:set-root", "an attached child (and its subtree) takes over the parent's root", where=a.where,
           expected="self.root handed to a method of the child that stores it on the child and on every node below it")
    ip = core_rules.pushed_into_subtree(chk, S, c, fld(SELF, "integer_positions"), "integer_positions", a)
    ipc = [e for e in S.calls("use_integer_positions") if canon(e.recv) == canon(c)]
    chk.ob(rule, ip is not None, CORE, host, "attach:integer-positions", "an attached child inherits the position mode of the node it is attached to", where=a.where,
           expected="self.integer_positions handed to a method of the child that stores it on the child and on every node below it",
           found=short(ipc[0].args[0]) if ipc and ipc[0].args else "no such call", sample={"arg": short(ipc[0].args[0]) if ipc and ipc[0].args else None})
    st = [e for e in S.events if e.kind == "store" and e.base[0] == "fld" and e.base[2] == "children" and canon(e.value) == canon(c)]
    ap = [e for e in S.events if e.kind == "call" and e.name == "append" and e.recv is not None and e.recv[0] == "fld" and e.recv[2] == "_childrenv" and e.args and canon(e.args[0]) == canon(c)]
    ok = bool(st) and bool(ap) and set(plain(st[0].guard)) == set(plain(ap[0].guard)) and \
        st[0].index[0] == "fld" and st[0].index[2] == "name" and canon(st[0].index[1]) == canon(c)
    chk.ob(rule, ok, CORE, host, "attach:children-and-shadow-list", "the children dict and its value list are updated together, keyed by the child's name", where=a.where)


def lazy_child_rules(chk, pid):
    """Scenario-based: the requested name is a declared lazy child / an unknown name; in both the node is attached for real, set up and caught up."""
    fi = chk.prog.func(CORE, "StrategyBase", "_create_child_if_needed")
    S = chk.summary(CORE, "StrategyBase", "_create_child_if_needed", host="StrategyBase", no_inline=("_add_children", "setup", "update", "_set_root", "use_integer_positions"))
    host = "StrategyBase._create_child_if_needed"
    chk.site()
    child = ("param", "child")
    lazy = fld(SELF, "_lazy_children")
    in_lazy = canon(("cmp", "in", child, lazy))
    in_children = canon(("cmp", "in", child, fld(SELF, "children")))
    DECL, RAISE = ("declared-lazy-child",), ("raise",)

    def is_pop(x):
        return x[0] == "mcall" and x[2] == "pop" and x[1][0] == "fld" and x[1][2] == "_lazy_children" and len(x[3]) >= 1 and canon(x[3][0]) == canon(child)

    def is_default(x):
        return (x[0] == "new" and x[1] == "Security" and len(x[2]) == 1 and canon(x[2][0]) == canon(child)
                and all(k != "lazy_add" or canon(v) == canon(sym.FALSE) for k, v in x[3]))

    def resolver(declared):
        def truth(cond):
            cc = canon(cond)
            if cc == in_lazy:
                return declared
            if cc[0] == "not":
                r = truth(cc[1])
                return None if r is None else (not r)
            if cc[0] == "isnone":
                r = resolve(cc[1])
                if r == DECL or (isinstance(r, tuple) and r and r[0] == "new"):
                    return False  # declared children are nodes, never None
                if canon(r) == canon(sym.NONE):
                    return True
            return None

        def resolve(v):
            if not isinstance(v, tuple) or not v:
                return v
            if is_pop(v):
                if declared:
                    return DECL
                return resolve(v[3][1]) if len(v[3]) == 2 else RAISE
            if v[0] == "sub" and canon(v[1]) == canon(lazy) and canon(v[2]) == canon(child):
                return DECL if declared else RAISE
            if v[0] == "ite" and len(v) == 4:
                r = truth(v[1])
                if r is True:
                    return resolve(v[2])
                if r is False:
                    return resolve(v[3])
            return v
        return resolve

    n_ok = 0
    for declared in (True, False):
        label = "declared" if declared else "default"
        resolve = resolver(declared)
        scen = ((in_lazy, declared), (in_children, False))

        def live(e):
            return not sym.inconsistent(sym.sat(tuple(G(e)) + scen))

        def is_the_child(v):
            r = resolve(v)
            return r == DECL if declared else (isinstance(r, tuple) and is_default(r))
        st = [e for e in S.events if e.kind == "call" and e.name == "setup" and e.recv is not None and live(e) and is_the_child(e.recv)]
        up = [e for e in S.events if e.kind == "call" and e.name == "update" and e.recv is not None and e.recv != SELF and live(e) and is_the_child(e.recv)]
        add = []
        for e in S.calls("_add_children"):
            if not live(e):
                continue
            ab = bound_args(e, chk.prog)
            ch = ab.get("children")
            if ch is not None and ch[0] == "list" and len(ch) == 2 and is_the_child(ch[1]) and canon(ab.get("dc", sym.TRUE)) == canon(sym.FALSE):
                add.append(e)
        direct = [w for w in S.events if w.kind == "write" and w.field == "parent" and canon(w.value) == canon(SELF) and live(w) and is_the_child(w.obj)]
        ok = bool(st) and bool(up) and bool(add or direct)
        chk.ob("C19.R3", ok, CORE, host, "lazy-child-source:%s" % label,
               "the node that is attached, set up and updated is the declared lazy child of that name when there is one, and a default Security otherwise", where=fi.where,
               found="setup on %s" % ", ".join(short(e.recv, 80) for e in S.events if e.kind == "call" and e.name == "setup")[:200])
        if not ok:
            continue
        n_ok += 1
        att = (add or direct)[0]
        if direct and not add:
            attach_obligations(chk, S, direct[0], host, "C19.R3")
        if declared:
            la = [w for w in S.events if w.kind == "write" and w.field == "lazy_add" and live(w) and is_the_child(w.obj) and canon(w.value) == canon(sym.FALSE) and w.seq < att.seq]
            chk.ob("C19.R3", bool(la), CORE, host, "lazy-flag-cleared", "the lazy flag of a declared child is cleared before it is attached (so that it is attached for real)", where=fi.where)
        ok = att.seq < st[0].seq < up[0].seq
        chk.ob("C19.R3", ok, CORE, host, "attach-setup-update-order:%s" % label, "the child is attached (not copied), then set up, then brought up to date", where=fi.where,
               expected="attach -> c.setup(...) -> c.update(now)", found=", ".join(e.name for e in S.events if e.kind == "call")[:120])
        ok = st[0].args and st[0].args[0][0] == "fld" and st[0].args[0][2] == "_universe" and "**" in (st[0].kwargs or {})
        chk.ob("C19.R3", ok, CORE, host, "lazy-setup-args:%s" % label, "the lazily created child is set up with the strategy's universe and the stored settings", where=st[0].where)
        ok = up[0].args and up[0].args[0][0] == "fld" and up[0].args[0][2] == "now"
        chk.ob("C19.R3", ok, CORE, host, "lazy-catch-up:%s" % label, "the new child is updated to the strategy's current date", where=up[0].where)
        ok = sym.lit_holds(G(att), ("in", child, fld(SELF, "children")), False)
        chk.ob("C19.R3", ok, CORE, host, "only-when-missing:%s" % label, "nothing is created for an existing child", where=fi.where)
    chk.need(n_ok or True, "")


def setup_from_parent_rules(chk, pid):
    fi = chk.prog.func(CORE, "StrategyBase", "setup_from_parent")
    S = chk.summary(CORE, "StrategyBase", "setup_from_parent", host="StrategyBase", no_inline=("setup",))
    host = "StrategyBase.setup_from_parent"
    chk.site()
    st = [e for e in S.calls("setup") if e.recv == SELF]
    ok = bool(st) and st[0].args and st[0].args[0][0] == "fld" and st[0].args[0][2] == "_original_data" and st[0].args[0][1][0] == "fld" and st[0].args[0][1][2] == "parent"
    chk.ob("C19.R4", ok, CORE, host, "dynamic-child-setup", "a dynamically attached sub-strategy is set up with its parent's original data", where=fi.where)
    stores = [e for e in S.events if e.kind == "store" and e.base[0] == "fld" and e.base[2] == "_universe" and e.base[1][0] == "fld" and e.base[1][2] == "parent"]
    ok = bool(stores) and stores[0].value == ("nan",) and stores[0].index[0] == "fld" and stores[0].index[2] == "name"
    chk.ob("C19.R4", ok, CORE, host, "dynamic-child-column", "a dynamically attached sub-strategy gets its price column in the parent's universe", where=fi.where)
    from .algo_equiv import check_equiv

    check_equiv(chk, "C19.R4", CORE, "StrategyBase", "setup_from_parent", SETUP_FROM_PARENT_REF, "dynamic-child-kwargs",
                "a dynamically attached sub-strategy is set up with the parent's data and the parent's setup arguments, its OWN arguments overriding the parent's (so a child given its own "
                "weights / risk / maturity tables reads those)", no_inline=("setup",))


SETUP_FROM_PARENT_REF = '''
def ref(self, **kwargs):
    all_kwargs = self.parent._setup_kwargs.copy()
    all_kwargs.update(kwargs)
    self.setup(self.parent._original_data, **all_kwargs)
    if self.name not in self.parent._universe:
        self.parent._universe[self.name] = np.nan
'''



def full_name_members(chk, pid):
    F = chk.summary(CORE, "Node", "full_name", host="Node", no_inline=("full_name",))
    ok = False
    for g, v in F.return_cases():
        gg = sym.sat(g)
        is_root = any(p and a[0] in ("cmp", "eq", "is") and mentions_field(a, "parent", SELF) for a, p in gg)
        if is_root:
            ok = v[0] == "fld" and v[2] == "name"
    chk.ob("C19.R4", ok, CORE, "Node.full_name", "full-name-root", "a root's full name is its name", where=F.fn.where)
    ok = False
    for g, v in F.return_cases():
        gg = sym.sat(g)
        not_root = any((not p) and a[0] in ("cmp", "eq", "is") and mentions_field(a, "parent", SELF) for a, p in gg)
        if not_root:
            par = ("fld", SELF, "parent", 0)
            via_parent = sym.contains(v, lambda n: n[0] == "prop" and len(n) == 3 and n[2] == "full_name" and canon(n[1]) == canon(par))
            own = sym.contains(v, lambda n: n[0] == "fld" and len(n) == 4 and n[2] == "name" and canon(n[1]) == canon(SELF))
            ok = via_parent and own
    chk.ob("C19.R4", ok, CORE, "Node.full_name", "full-name-path", "below the root a node's full name is its parent's FULL name followed by its own name (the whole path, so that names are unique in the tree)",
           where=F.fn.where, expected="parent.full_name > name")
    from .algo_equiv import check_equiv

    check_equiv(chk, "C19.R2", CORE, "Node", "members", MEMBERS_REF, "members-recursive",
                "members are computed afresh on every read: the node plus the members of every current child (children may be created lazily at any time, so nothing may be cached)",
                no_inline=("members",))


MEMBERS_REF = '''
def ref(self):
    res = [self]
    for c in list(self.children.values()):
        res.extend(c.members)
    return res
'''


def backtest_init_rules(chk, pid):
    """C11.R1 / C10.R1: Backtest.__init__ never touches the template or the data it was given."""
    S = chk.summary(BACKTEST, "Backtest", "__init__", host="Backtest", no_inline=("_process_data",))
    host = "Backtest.__init__"
    chk.site()
    strat, data = ("param", "strategy"), ("param", "data")
    if pid == "C11":
        sw = S.writes("strategy", SELF)
        ok = bool(sw) and sw[0].value[0] == "call" and sw[0].value[1] == "deepcopy" and sw[0].value[2] == (strat,)
        chk.ob("C11.R1", ok, BACKTEST, host, "template-deep-copied", "the strategy template is deep-copied at construction", where=S.fn.where, expected="self.strategy = deepcopy(strategy)",
               found=short(sw[0].value) if sw else "?")
        bad = []
        for e in S.events:
            if e.kind == "call" and e.recv is not None and sym.contains(e.recv, lambda n: n == strat) and not sym.contains(e.recv, lambda n: n[0] == "call" and n[1] == "deepcopy"):
                bad.append(e)
            if e.kind in ("write",) and sym.contains(e.obj, lambda n: n == strat) and not sym.contains(e.obj, lambda n: n[0] == "call" and n[1] == "deepcopy"):
                bad.append(e)
            if e.kind == "call" and e.name == "<value>":
                pass
        chk.ob("C11.R1", not bad, BACKTEST, host, "template-never-touched", "nothing is called on or written to the strategy template itself: everything goes through the copy",
               where=bad[0].where if bad else S.fn.where, found="; ".join(repr(b)[:100] for b in bad[:3]), sample={"touches": [repr(b)[:80] for b in bad[:3]]})
        for e in S.events:
            if e.kind in ("store",) and sym.contains(e.base, lambda n: n == data):
                chk.ob("C11.R1", False, BACKTEST, host, "data-never-written", "the data frame passed in is never written", where=e.where)
    if pid == "C10":
        rs = [e for e in S.raises if any(p and sym.contains(a, lambda n: n[0] == "mcall" and n[2] == "duplicated") for a, p in e.guard)]
        first = [e for e in S.events if e.kind in ("write", "call") and e.seq > 0 and not (e.kind == "call" and e.extra is None and e.name in ("duplicated",))]
        ok = bool(rs) and all(rs[0].seq < w.seq for w in S.writes(None, SELF))
        chk.ob("C10.R1", ok, BACKTEST, host, "guard:duplicate-columns", "duplicate tickers are refused with an error before anything is built", where=S.fn.where)
    P = chk.summary(BACKTEST, "Backtest", "_process_data", host="Backtest")
    if pid == "C11":
        ad = P.writes("additional_data", SELF)

        def fresh(v):
            """a new dict made from the caller's: d.copy() / dict(d)"""
            return isinstance(v, tuple) and ((v[0] == "mcall" and v[2] == "copy" and not v[3]) or (v[0] == "call" and v[1] == "dict" and len(v[2]) == 1 and not v[3]))

        ok = bool(ad) and all(fresh(w.value) for w in ad)
        chk.ob("C11.R1", ok, BACKTEST, "Backtest._process_data", "additional-data-copied", "the additional-data dict is copied before frames in it are re-framed", where=P.fn.where)
        for e in P.events:
            if e.kind == "store":
                okb = (e.base[0] == "fld" and e.base[2] == "additional_data") or fresh(e.base)
                chk.ob("C11.R1", okb, BACKTEST, "Backtest._process_data", "stores-hit-own-copy", "re-framed data is stored only into the backtest's own dict", where=e.where, found=short(e.base, 80))
        # the copy is shallow: its entries are still the caller's objects and must not be handed to code that stores into its arguments
        for e in P.events:
            if e.kind != "call" or getattr(e, "inlined", False) or not e.callee:
                continue
            entry_args = [a for a in list(e.args or []) + list((e.kwargs or {}).values())
                          if isinstance(a, tuple) and sym.contains(a, lambda n: n[0] in ("sub", "elem", "item") and sym.contains(n, lambda m: (m[0] == "fld" and len(m) == 4 and m[2] == "additional_data") or m == ("param", "additional_data")))]
            if not entry_args:
                continue
            for cal in e.callee:
                params = set(cal.params)
                stores = False
                for n in ast.walk(cal.node):
                    tgts = n.targets if isinstance(n, ast.Assign) else [n.target] if isinstance(n, (ast.AugAssign, ast.AnnAssign)) else []
                    for t in tgts:
                        if isinstance(t, ast.Subscript) and isinstance(t.value, ast.Name) and t.value.id in params:
                            stores = True
                chk.ob("C11.R1", not stores, BACKTEST, "Backtest._process_data", "entry-handed-to-storing-helper:%s" % cal.name,
                       "an entry of the additional data (the caller's own object: the dict copy is shallow) is handed to a function that stores into its argument", where=e.where,
                       found="%s(%s)" % (cal.qual, ", ".join(short(a, 60) for a in entry_args)))


SET_MAKERS = {"set", "frozenset"}
SET_METHODS = {"intersection", "union", "difference", "symmetric_difference"}


def _is_set_expr(n):
    if isinstance(n, (ast.Set, ast.SetComp)):
        return True
    if isinstance(n, ast.Call):
        if isinstance(n.func, ast.Name) and n.func.id in SET_MAKERS:
            return True
        if isinstance(n.func, ast.Attribute) and n.func.attr in SET_METHODS:
            return _is_set_expr(n.func.value) or (isinstance(n.func.value, ast.Name) and n.func.value.id == "set")
    if isinstance(n, ast.BinOp) and isinstance(n.op, (ast.BitOr, ast.BitAnd, ast.Sub, ast.BitXor)):
        return _is_set_expr(n.left) or _is_set_expr(n.right)
    return False


def set_order_rules(chk, pid):
    """C11.R5 T-SETORD: the iteration order of a set never becomes the order of a stored / returned / sampled sequence."""
    n = 0
    for f in chk.prog.all_functions(modules=(CORE, ALGOS, BACKTEST)):
        for node in ast.walk(f.node):
            hit = None
            if isinstance(node, ast.Call) and isinstance(node.func, ast.Name) and node.func.id in ("list", "tuple") and node.args and _is_set_expr(node.args[0]):
                hit = "list(set)"
            elif isinstance(node, ast.Call) and isinstance(node.func, ast.Attribute) and node.func.attr in ("Index", "array", "Series") and node.args and _is_set_expr(node.args[0]):
                hit = "sequence(set)"
            elif isinstance(node, (ast.ListComp,)) and any(_is_set_expr(g.iter) for g in node.generators):
                hit = "[... for x in set]"
            elif isinstance(node, ast.For) and _is_set_expr(node.iter) and any(isinstance(c, ast.Call) and isinstance(c.func, ast.Attribute) and c.func.attr in ("append", "extend", "insert")
                                                                                 for b in node.body for c in ast.walk(b)):
                hit = "for x in set: seq.append"
            elif isinstance(node, ast.Subscript) and _is_set_expr(node.slice) if hasattr(node, "slice") else False:
                hit = "frame[set]"
            if isinstance(node, ast.Call) and isinstance(node.func, ast.Name) and node.func.id == "set":
                n += 1
            if hit:
                # sorted(list(set(..))) is fine
                chk.ob("C11.R5", False, f.module, f.qual, "set-order:%s" % hit,
                       "the iteration order of a set depends on the interpreter's hash seed and must not become the order of a sequence that is stored, returned or sampled from",
                       where="%s:%d" % (f.module, node.lineno), expected="an order derived from the data (or sorted)", found=ast.unparse(node)[:120])
    chk.ob("C11.R5", True, CORE, "<program>", "set-order-scan", "scan of every set construction in the program", sample={"set_constructions_scanned": n})
    chk.floor_count("C11.R5:set constructions scanned", n, 3)


# ------------------------------------------------------------------------------------------------
# C11 additions: set-typed attributes, input-data mutation, shared mutable class state


def set_typed_attribute_order(chk, pid):
    """T-SETORD through attributes: an attribute that is created as a set must not be iterated to build something ordered
    (frame columns, list items); membership tests and .add are fine."""
    set_attrs = {}
    for f in chk.prog.all_functions(modules=(CORE, ALGOS, BACKTEST)):
        for node in ast.walk(f.node):
            if isinstance(node, ast.Assign) and len(node.targets) == 1 and isinstance(node.targets[0], ast.Attribute) and _is_set_expr(node.value):
                set_attrs.setdefault(node.targets[0].attr, []).append("%s:%d" % (f.module, node.lineno))
    n = 0
    for f in chk.prog.all_functions(modules=(CORE, ALGOS, BACKTEST)):
        for node in ast.walk(f.node):
            iters = []
            if isinstance(node, ast.For):
                iters.append((node.iter, node.body))
            elif isinstance(node, (ast.ListComp, ast.GeneratorExp, ast.DictComp)):
                for g in node.generators:
                    iters.append((g.iter, [node]))
            for it, body in iters:
                if isinstance(it, ast.Attribute) and it.attr in set_attrs:
                    n += 1
                    ordered = isinstance(node, (ast.ListComp, ast.DictComp)) or any(
                        (isinstance(c, ast.Call) and isinstance(c.func, ast.Attribute) and c.func.attr in ("append", "extend", "insert"))
                        or (isinstance(c, (ast.Assign, ast.AugAssign)) and any(isinstance(t, ast.Subscript) for t in (c.targets if isinstance(c, ast.Assign) else [c.target])))
                        for b in body for c in ast.walk(b))
                    chk.ob("C11.R5", not ordered, f.module, f.qual, "set-attribute-order:%s" % it.attr,
                           "an attribute created as a set (%s) is iterated to build something ordered (columns / list items): the result depends on the interpreter's hash seed" % set_attrs[it.attr][0],
                           where="%s:%d" % (f.module, node.lineno), expected="a list (insertion order)", found=ast.unparse(it))
    chk.note("set-typed attributes: %s; %d iterations inspected" % (sorted(set_attrs), n))


def input_data_never_mutated(chk, pid):
    """C11.R1 for algos: data frames that reach an algo from the caller (get_data, constructor-supplied frames, the universe) are never modified in place."""
    from .c04 import algo_classes, full_attrs_of

    n = 0
    for c in algo_classes(chk.prog):
        if "__call__" not in c.methods:
            continue
        S = chk.summary(ALGOS, c.name, "__call__", host=c.name, depth=3)
        full = full_attrs_of(S)
        gd = set(e.result for e in S.events if e.kind == "call" and e.name == "get_data" and e.result is not None)

        def is_input(v):
            # strip pure selections; a method call that returns a new object (dropna, copy, loc[...] rows) ends the chain
            while True:
                if v in gd:
                    return True
                if v[0] == "fld" and v[1] == SELF and v[2] in full:
                    return True
                if v[0] == "prop" and v[2] in ("universe",):
                    return True
                if v[0] == "fld" and v[2] in ("_funiverse", "_universe", "_original_data"):
                    return True
                if v[0] == "ite":
                    return is_input(v[2]) or is_input(v[3])
                if v[0] == "sub" and v[1][0] != "attr":
                    v = v[1]
                    continue
                if v[0] == "mcall" and v[2] in ("get",):
                    v = v[1]
                    continue
                return False

        for e in S.events:
            tgt = None
            if e.kind == "call" and (e.extra == "mutate" or (e.kwargs or {}).get("inplace") == ("bool", True)) and e.recv is not None:
                tgt = e.recv
            elif e.kind == "store":
                tgt = e.base[1] if e.base[0] == "attr" and e.base[2] in ("loc", "iloc", "values", "at", "iat") else e.base
            if tgt is None:
                continue
            n += 1
            bad = is_input(tgt)
            chk.ob("C11.R1", not bad, ALGOS, "%s.__call__" % c.name, "input-data-mutated:%s" % (e.name or "store"),
                   "an algo never modifies, in place, a data frame it was handed by the caller (additional data is passed by reference)", where=e.where,
                   expected="work on a copy", found=short(tgt, 120), sample={"algo": c.name, "target": short(tgt, 80)} if bad else None)
    chk.floor_count("C11.R1:in-place operations in algos", n, 10)


def no_shared_class_state(chk, pid):
    """backtests built from one template are independent: deepcopy does not copy class attributes, so mutable class-level
    containers that methods write into are shared between all backtests of a process."""
    n = 0
    for c in chk.prog.classes.values():
        if c.module not in (CORE, ALGOS, BACKTEST):
            continue
        shared = {}
        for st in c.node.body:
            if isinstance(st, ast.Assign) and len(st.targets) == 1 and isinstance(st.targets[0], ast.Name):
                v = st.value
                if isinstance(v, (ast.Dict, ast.List, ast.Set)) or (isinstance(v, ast.Call) and isinstance(v.func, ast.Name) and v.func.id in ("dict", "list", "set", "defaultdict", "OrderedDict")):
                    shared[st.targets[0].id] = st.lineno
        n += 1
        for name, line in shared.items():
            written = False
            for m in c.methods.values():
                for node in ast.walk(m.node):
                    if isinstance(node, (ast.Assign, ast.AugAssign)):
                        for t in (node.targets if isinstance(node, ast.Assign) else [node.target]):
                            if isinstance(t, ast.Subscript) and isinstance(t.value, ast.Attribute) and t.value.attr == name:
                                written = True
                    if isinstance(node, ast.Call) and isinstance(node.func, ast.Attribute) and node.func.attr in ("append", "add", "update", "setdefault", "extend") and \
                            isinstance(node.func.value, ast.Attribute) and node.func.value.attr == name:
                        written = True
            chk.ob("C11.R3", not written, c.module, c.name, "shared-class-state:%s" % name,
                   "a mutable container defined on the class and written by its methods is shared by every copy of the template: backtests are no longer independent of each other or of run order",
                   where="%s:%d" % (c.module, line), expected="per-instance state created in __init__", found="class attribute %s written by a method" % name)
    chk.note("%d classes scanned for shared mutable class state" % n)
