"""C07 - every node's cash ledger reconciles with its recorded flows, outlays, fees (DESIGN 5/C07)."""
from . import backtest_rules, core_rules


def run(chk):
    chk.explain("C07: (R1) outlay() = (notional + spread + fee, notional + spread, fee, spread) in normal form; (R2) transact books the fee-free outlay on the security and passes "
                "minus the full outlay with fee=fee, flow=False to the security's own parent; (R3) fee / flow accumulators: write kinds, reset on date change, rows unconditional; "
                "(R4) outlay flush-and-reset; (R5) commission resolves to the parent's function and set_commissions recurses; (R6) outlay is pure.")
    core_rules.outlay_rules(chk, "C07")
    core_rules.transact_rules(chk, "C07")
    core_rules.adjust_rules(chk, "C07")
    core_rules.strategy_update(chk, "C07")
    core_rules.security_update(chk, "C07")
    core_rules.strategy_allocate_rules(chk, "C07")
    core_rules.ownership_rules(chk, "C07", roles=("CAPITAL", "POSITION", "NET_FLOWS", "LAST_FEE"))
    core_rules.set_commissions_rules(chk, "C07")
    backtest_rules.run_loop(chk, "C07")
    core_rules.accessor_rules(chk, "C07")
    core_rules.security_setup_rules(chk, "C07")  # the outlay / bid-offer history columns start at zero on both setup paths
    core_rules.coupon_accrual(chk, "C07")  # the swept carry (coupon less holding cost) that enters the parent's cash is a well-defined amount on every side of the position
    core_rules.refresh_before_trade(chk, "C07")  # the pending outlay of an earlier trade is recorded (and reset) by the refresh that precedes the next trade of the date
