"""Reference-model comparison of small algos (control / state logic): the analysed function and a reference
model are evaluated by the same engine and compared by truth table over their branch atoms (btlint.equiv)."""

from .. import equiv, sym
from ..source import ctor_field_map
from .common import ALGOS, CORE, short


_FROZEN = []


def _frozen_ctor_fields():
    """private field -> constructor parameter, as the reference models (written against the pinned tree) name them"""
    if not _FROZEN:
        import json
        import os

        with open(os.path.join(os.path.dirname(os.path.dirname(os.path.abspath(__file__))), "data", "ctor_fields.json")) as f:
            _FROZEN.append(json.load(f))
    return _FROZEN[0]


def check_equiv(chk, rule, module, cls, name, ref_src, key, what, host=None, ignore_fields=(), no_inline=(), depth=None, limit=14, alt_refs=(), ignore_refresh=False, ctor=False):
    """alt_refs: further reference models of the same behaviour built from other, separately checked, parts of the
    code (e.g. a report that may reuse a sibling accessor); the function must be equivalent to one of them."""
    host = host or cls
    fi = chk.prog.func(module, cls, name)
    S = chk.summary(module, cls, name, host=host, no_inline=no_inline, depth=depth, ignore_refresh=ignore_refresh)
    code_fields, ref_fields = ({}, {}) if cls is None else (ctor_field_map(chk.prog, host), _frozen_ctor_fields().get(host, {}))
    class_defaults = {}
    if cls is not None and name == "__init__":
        for k_, v_ in chk.prog.class_constants(host).items():
            try:
                class_defaults[k_] = sym.canon(sym.NONE if v_ is None else (("str", v_) if isinstance(v_, str) else sym.num(v_)))
            except Exception:
                pass
    n, diffs = None, None
    for src in (ref_src,) + tuple(alt_refs):
        Rf = chk.ref(src, host, module=module, depth=depth, no_inline=no_inline, ignore_refresh=ignore_refresh)
        n_, diffs_ = equiv.compare(S, Rf, limit=limit, ignore_fields=ignore_fields, code_fields=code_fields, ref_fields=ref_fields, final_self=ctor, class_defaults=class_defaults)
        if n is None:
            n, diffs = n_, diffs_
        if n_ >= 0 and not diffs_:
            n, diffs = n_, diffs_
            break
    hostname = "%s.%s" % (cls, name)
    chk.site()
    if n < 0:
        from ..source import AnalysisError

        raise AnalysisError("%s: %d branch atoms exceed the truth-table bound" % (hostname, -n))
    if not diffs:
        chk.ob(rule, True, module, hostname, key, what, where=fi.where, sample={"host": hostname, "assignments_compared": n})
        return True
    assign, kind, a, b = diffs[0]
    chk.ob(rule, False, module, hostname, key, what, where=fi.where, expected="%s: %s" % (kind, _f(b)), found="%s: %s   [when %s]" % (kind, _f(a), equiv.fmt_assign(assign)[:200]),
           sample={"host": hostname, "assignments_compared": n})
    return False


def _f(x):
    if x is None:
        return "nothing"
    try:
        return str(tuple(sym.fmt(y) if isinstance(y, tuple) and y and isinstance(y[0], str) else y for y in x))[:260]
    except Exception:
        return repr(x)[:260]
