"""C16 - bankruptcy is detected, clean and terminal (DESIGN 5/C16)."""
from . import backtest_rules, c06, core_rules, tree_rules


def run(chk):
    chk.explain("C16: (R1) the flag is set at one site under exactly root / negative value (sign region) / not fixed income / not already bankrupt, cleared only at construction and "
                "setup; (R2) the same branch flattens, flatten reaches every child with an open position and allocate spreads to every descendant, the close-out quantity is exactly "
                "minus the position, and the children's values are re-read through the refreshing accessors after the liquidation; (R3) the date loop runs the algos only while not "
                "bankrupt and keeps updating.")
    core_rules.strategy_update(chk, "C16")
    core_rules.update_after_liquidation(chk, "C16")
    c06.close_flatten(chk, "C16")
    core_rules.strategy_allocate_rules(chk, "C16")
    core_rules.fresh_read_rules(chk, "C16")
    tree_rules.setup_resets(chk, "C16")
    backtest_rules.run_loop(chk, "C16")
    closeout_quantity(chk)
    from .c10 import price_guard_in_allocate
    price_guard_in_allocate(chk)  # the liquidation trades at whatever price made the value negative: only a missing or zero price is refused
    # after the liquidation nothing may be left parked on a security: the carry parked by a coupon-paying security is always coupon - cost of the CURRENT position
    core_rules.coupon_accrual(chk, "C16")


def closeout_quantity(chk):
    """allocating exactly minus the value closes the position completely: q = -position, not rounded."""
    from .. import sym
    from ..evalfn import SELF
    from .common import CORE, Roles, fld

    R = Roles(chk.prog)
    S = chk.summary(CORE, "SecurityBase", "allocate", host="SecurityBase", no_inline=("outlay", "transact", "update", "commission"))
    chk.need(S.while_loops, "SecurityBase.allocate no longer has a sizing loop")
    q0 = None
    loop = S.while_loops[0]
    for n in loop.names:
        v = loop.pre.get(n)
        if v is not None and sym.contains(v, lambda x: x[0] == "fld" and x[2] == R.POSITION):
            q0 = v
    chk.need(q0 is not None, "SecurityBase.allocate: cannot find the quantity variable")
    closing_atom = None
    for n in sym.walk(q0):
        if n[0] == "ite":
            c = sym.canon(n[1])
            if c[0] == "not":
                c = c[1]
            cands = [c] + (list(c[1:]) if c[0] in ("and", "or") else [])
            for a in cands:
                if a[0] == "zero" and sym.contains(a, lambda x: x == ("param", "amount")) and sym.contains(a, lambda x: x[0] == "fld" and x[2] == R.VALUE):
                    closing_atom = a
    oks = []
    if closing_atom is not None:
        for pol in (True, False):
            g = sym.sat([(closing_atom, True), (fld(SELF, "integer_positions"), pol)])
            v = sym.restrict(q0, g)
            for _, leaf in sym.cases(v):
                oks.append(sym.equal(core_rules.norm_versions(leaf), ("neg", fld(SELF, R.POSITION))))
    ok = bool(oks) and all(oks)
    chk.ob("C16.R2", ok, CORE, "SecurityBase.allocate", "closeout-quantity-exact", "allocating exactly minus the value trades exactly minus the position (whole or fractional): liquidation leaves nothing",
           where=S.fn.where, expected="q = -position under is_zero(amount + value), not rounded", found=core_rules.short(q0, 200))
