"""C15 - weighting algos produce the documented weights (DESIGN 5/C15)."""
from .. import sym
from ..evalfn import SELF
from ..sym import canon
from . import core_rules, backtest_rules, tree_rules
from .algo_equiv import check_equiv
from .c04 import algo_classes
from .common import ALGOS, G, plain, short

TARGET = ("param", "target")
TEMP = ("fld", TARGET, "temp", 0)

REFS = {
    "WeighEqually": ('''
def ref(self, target):
    selected = target.temp["selected"]
    n = len(selected)
    if n == 0:
        target.temp["weights"] = {}
    else:
        w = 1.0 / n
        target.temp["weights"] = {x: w for x in selected}
    return True
''', "1/n for each selected ticker, nothing for an empty selection"),
    "WeighSpecified": ('''
def ref(self, target):
    target.temp["weights"] = self.weights.copy()
    return True
''', "a COPY of the specified weights (downstream algos modify temp['weights'] in place)"),
    "ScaleWeights": ('''
def ref(self, target):
    target.temp["weights"] = {k: self.scale * w for k, w in target.temp["weights"].items()}
    return True
''', "every weight multiplied by the scale"),
    "WeighTarget": ('''
def ref(self, target):
    if self.weights_name is None:
        weights = self.weights
    else:
        weights = target.get_data(self.weights_name)
    if target.now in weights.index:
        w = weights.loc[target.now]
        target.temp["weights"] = w.dropna()
        return True
    else:
        return False
''', "the target frame's row at now with NaNs dropped; False when now is not in the frame"),
    "WeighInvVol": ('''
def ref(self, target):
    selected = target.temp["selected"]
    if len(selected) == 0:
        target.temp["weights"] = {}
        return True
    if len(selected) == 1:
        target.temp["weights"] = {selected[0]: 1.0}
        return True
    t0 = target.now - self.lag
    prc = target.universe.loc[t0 - self.lookback : t0, selected]
    tw = bt.ffn.calc_inv_vol_weights(prc.to_returns().dropna())
    target.temp["weights"] = tw.dropna()
    return True
''', "ffn.calc_inv_vol_weights on the returns over [now - lag - lookback, now - lag]; {} / {name: 1} for empty / single selections"),
    "WeighERC": ('''
def ref(self, target):
    selected = target.temp["selected"]
    if len(selected) == 0:
        target.temp["weights"] = {}
        return True
    if len(selected) == 1:
        target.temp["weights"] = {selected[0]: 1.0}
        return True
    t0 = target.now - self.lag
    prc = target.universe.loc[t0 - self.lookback : t0, selected]
    tw = bt.ffn.calc_erc_weights(
        prc.to_returns().dropna(),
        initial_weights=self.initial_weights,
        risk_weights=self.risk_weights,
        covar_method=self.covar_method,
        risk_parity_method=self.risk_parity_method,
        maximum_iterations=self.maximum_iterations,
        tolerance=self.tolerance,
    )
    target.temp["weights"] = tw.dropna()
    return True
''', "ffn.calc_erc_weights on the trailing window with all six constructor parameters passed through"),
    "WeighMeanVar": ('''
def ref(self, target):
    selected = target.temp["selected"]
    if len(selected) == 0:
        target.temp["weights"] = {}
        return True
    if len(selected) == 1:
        target.temp["weights"] = {selected[0]: 1.0}
        return True
    t0 = target.now - self.lag
    prc = target.universe.loc[t0 - self.lookback : t0, selected]
    tw = bt.ffn.calc_mean_var_weights(
        prc.to_returns().dropna(),
        weight_bounds=self.bounds,
        covar_method=self.covar_method,
        rf=self.rf,
    )
    target.temp["weights"] = tw.dropna()
    return True
''', "ffn.calc_mean_var_weights on the trailing window with bounds, covariance method and risk-free rate passed through"),
    "WeighRandomly": ('''
def ref(self, target):
    sel = target.temp["selected"]
    n = len(sel)
    w = {}
    try:
        rw = bt.ffn.random_weights(n, self.bounds, self.weight_sum)
        w = dict(zip(sel, rw))
    except ValueError:
        pass
    target.temp["weights"] = w
    return True
''', "ffn.random_weights(n, bounds, weight_sum) zipped with the selection; {} when infeasible"),
    "LimitDeltas": ('''
def ref(self, target):
    tw = target.temp["weights"]
    all_keys = set(list(target.children.keys()) + list(tw.keys()))
    for k in all_keys:
        tgt = tw[k] if k in tw else 0.0
        cur = target.children[k].weight if k in target.children else 0.0
        delta = tgt - cur
        if self.global_limit:
            if abs(delta) > self.limit:
                tw[k] = cur + (self.limit * np.sign(delta))
        else:
            if k in self.limit:
                lmt = self.limit[k]
                if abs(delta) > lmt:
                    tw[k] = cur + (lmt * np.sign(delta))
    return True
''', "over the UNION of held children and targets, a weight change larger than the limit is clipped to current +/- limit (per-ticker limits only for listed tickers)"),
    "LimitWeights": ('''
def ref(self, target):
    if "weights" not in target.temp:
        return True
    tw = target.temp["weights"]
    if len(tw) == 0:
        return True
    if self.limit < 1.0 / len(tw):
        tw = {}
    else:
        tw = bt.ffn.limit_weights(tw, self.limit)
    target.temp["weights"] = tw
    return True
''', "ffn.limit_weights(weights, limit), or nothing when the cap is below the equal weight"),
    "TargetVol": ('''
def ref(self, target):
    current_weights = target.temp["weights"]
    selected = current_weights.keys()
    if len(selected) == 0:
        return True
    t0 = target.now - self.lag
    prc = target.universe.loc[t0 - self.lookback : t0, selected]
    returns = bt.ffn.to_returns(prc)
    if self.covar_method == "ledoit-wolf":
        covar = sklearn.covariance.ledoit_wolf(returns)
    elif self.covar_method == "standard":
        covar = returns.cov()
    else:
        raise NotImplementedError("covar_method not implemented")
    weights = pd.Series([current_weights[x] for x in covar.columns], index=covar.columns)
    vol = np.sqrt(np.matmul(weights.values.T, np.matmul(covar.values, weights.values)) * self.annualization_factor)
    target_volatility = self.target_volatility
    if isinstance(target_volatility, (float, int)):
        target_volatility = {k: target_volatility for k in target.temp["weights"].keys()}
    for k in target.temp["weights"].keys():
        if k in target_volatility.keys():
            target.temp["weights"][k] = target.temp["weights"][k] * target_volatility[k] / vol
    return True
''', "every weight with a target is scaled by target / sqrt(w' C w x annualization) computed over [now - lag - lookback, now - lag]"),
    "PTE_Rebalance": ('''
def ref(self, target):
    if target.now is None:
        return False
    if target.positions.shape == (0, 0):
        return True
    positions = target.positions.loc[target.now]
    if positions is None:
        return True
    prices = target.universe.loc[target.now, positions.index]
    if prices is None:
        return True
    current_weights = positions * prices / target.value
    target_weights = self.target_weights.loc[target.now, :]
    cols = list(current_weights.index.copy())
    for c in target_weights.keys():
        if c not in cols:
            cols.append(c)
    weights = pd.Series(np.zeros(len(cols)), index=cols)
    for c in cols:
        if c in current_weights:
            weights[c] = current_weights[c]
        if c in target_weights:
            weights[c] -= target_weights[c]
    t0 = target.now - self.lag
    prc = target.universe.loc[t0 - self.lookback : t0, cols]
    returns = bt.ffn.to_returns(prc)
    if self.covar_method == "ledoit-wolf":
        covar = sklearn.covariance.ledoit_wolf(returns)
    elif self.covar_method == "standard":
        covar = returns.cov()
    else:
        raise NotImplementedError("covar_method not implemented")
    PTE_vol = np.sqrt(np.matmul(weights.values.T, np.matmul(covar.values, weights.values)) * self.annualization_factor)
    if pd.isnull(PTE_vol):
        return False
    if PTE_vol > self.PTE_volatility_cap:
        return True
    else:
        return False
    return True
''', "True exactly when the volatility of (current - target) weights over the UNION of held and target names exceeds the cap; False on NaN"),
}

# the same definitions written with pandas' label-aligned arithmetic (a name missing on one side counts as zero there)
ALT_REFS = {
    "PTE_Rebalance": [REFS["PTE_Rebalance"][0].replace('''    weights = pd.Series(np.zeros(len(cols)), index=cols)
    for c in cols:
        if c in current_weights:
            weights[c] = current_weights[c]
        if c in target_weights:
            weights[c] -= target_weights[c]
''', '''    weights = current_weights.reindex(cols, fill_value=0.0) - target_weights.reindex(cols, fill_value=0.0)
''')],
}
assert "reindex" in ALT_REFS["PTE_Rebalance"][0]

STATE_ATTRS = {
    ("RunAfterDays", "days"): "the countdown is the parameter",
    ("RunOnce", "has_run"): "one-shot flag",
    ("RunEveryNPeriods", "idx"): "period counter",
    ("RunEveryNPeriods", "lcall"): "last call date",
    ("RebalanceOverTime", "_weights"): "pending targets",
    ("RebalanceOverTime", "_days_left"): "countdown",
    ("Algo", "_name"): "lazily computed display name",
}

ALIAS_OK = {
    ("SelectThese", "selected"): "the selection list is replaced, never modified in place, by the stock algos",
}


def immutability(chk):
    """T-IMMUT: an algo's __call__ does not reassign an attribute its constructor filled in."""
    n = 0
    weighting = set(REFS) | {"SetNotional", "ScaleWeights"}
    for c in algo_classes(chk.prog):
        if "__call__" not in c.methods or c.name not in weighting:
            continue
        S = chk.summary(ALGOS, c.name, "__call__", host=c.name, depth=3)
        init_fields = set()
        fi = chk.prog.resolve(c.name, "__init__")
        if fi is not None and fi.module == ALGOS:
            I = chk.summary(fi.module, fi.cls, "__init__", host=c.name, depth=3)
            init_fields = set(w.field for w in I.writes(None, SELF))
        for w in S.writes(None, SELF):
            n += 1
            key = (c.name, w.field)
            ok = key in STATE_ATTRS or ("Algo", w.field) in STATE_ATTRS or w.field not in init_fields
            chk.ob("C15.R5", ok, ALGOS, "%s.__call__" % c.name, "immut:%s" % w.field,
                   "an algo does not overwrite its own configuration while running (the enumerated state attributes excepted): later calls must see the parameters the user passed",
                   where=w.where, expected="constructor parameters are read-only in __call__", found="self.%s = %s" % (w.field, short(w.value, 100)),
                   sample={"algo": c.name, "field": w.field})
        # T-ESC: the algo's own configuration object is not handed out through temp['weights'] (which downstream algos modify in place)
        for e in S.events:
            if e.kind == "store" and canon(e.base) == canon(TEMP) and e.index[0] == "str":
                v = e.value
                leaves = [leaf for _, leaf in sym.cases(v)]
                for leaf in leaves:
                    if leaf[0] == "fld" and leaf[1] == SELF:
                        okk = (c.name, e.index[1]) in ALIAS_OK or e.index[1] != "weights"
                        chk.ob("C15.R5", okk, ALGOS, "%s.__call__" % c.name, "config-handed-out:%s" % leaf[2],
                               "temp['%s'] must not alias the algo's own configuration: downstream algos modify it in place and would rewrite the specification" % e.index[1],
                               where=e.where, expected="a copy", found="temp[%r] = self.%s" % (e.index[1], leaf[2]), sample={"algo": c.name, "attr": leaf[2]})
    chk.note("T-IMMUT: %d self-writes in weighting algos' __call__ bodies" % n)


def run(chk):
    chk.explain("C15: each weighting algo is equivalent to a reference model (truth table over branch atoms; pandas / ffn expressions in canonical form): own arithmetic (equal, "
                "specified copy, scale, delta limits over the union of held and target names, cap, volatility scaling, tracking-error trigger), windows ending at now - lag, the "
                "documented ffn callee with constructor parameters passed through, empty and single selections; plus T-IMMUT (no algo overwrites its configuration) and no handing out "
                "of the configuration object through temp['weights'].")
    chk.assume("everything ffn / sklearn compute (non-negativity, sums, risk relations) is third-party numerics and is not decided")
    for cls, (src, what) in REFS.items():
        check_equiv(chk, "C15.R1", ALGOS, cls, "__call__", src, "documented-weights", "%s: %s" % (cls, what), limit=16, alt_refs=ALT_REFS.get(cls, ()))
    immutability(chk)
    core_rules.fresh_read_rules(chk, "C15")
    # what the weighting algos read: named data exactly as supplied (WeighTarget relies on "no row at now"), a dynamic child's own tables, aggregated positions (PTE_Rebalance)
    backtest_rules.additional_data_only_prepended(chk)
    tree_rules.setup_from_parent_rules(chk, "C15")
    from .c18 import REFS as REPORT_REFS
    for mod, cls, name, src, what in REPORT_REFS:
        if (cls, name) == ("StrategyBase", "positions"):
            check_equiv(chk, "C18.R1", mod, cls, name, src, "report-formula", "%s.%s: %s" % (cls, name, what), no_inline=("update", "get_transactions"), limit=14, ignore_refresh=True)
