"""C18 - reports agree with the node histories they summarise (DESIGN 5/C18)."""
import ast

from .. import sym
from ..evalfn import SELF
from ..sym import canon
from . import core_rules, tree_rules
from .algo_equiv import check_equiv
from .common import ALGOS, BACKTEST, CORE, G, plain, short

REFS = [
    (BACKTEST, "Backtest", "weights", '''
def ref(self):
    if self._weights is not None:
        return self._weights
    else:
        if self.strategy.fixed_income:
            vals = pd.DataFrame({x.full_name: x.notional_values for x in self.strategy.members})
            vals = vals.div(self.strategy.notional_values, axis=0)
        else:
            vals = pd.DataFrame({x.full_name: x.values for x in self.strategy.members})
            vals = vals.div(self.strategy.values, axis=0)
        self._weights = vals
        return vals
''', "component weights are each member's (notional) values keyed by full name, divided by the ROOT strategy's (notional) values"),
    (BACKTEST, "Backtest", "security_weights", '''
def ref(self):
    if self._sweights is not None:
        return self._sweights
    else:
        vals = {}
        for m in self.strategy.members:
            if isinstance(m, bt.core.SecurityBase):
                if self.strategy.fixed_income:
                    m_values = m.notional_values.copy()
                else:
                    m_values = m.values.copy()
                if m.name in vals:
                    vals[m.name] += m_values
                else:
                    vals[m.name] = m_values
        vals = pd.DataFrame(vals)
        if self.strategy.fixed_income:
            vals = vals.div(self.strategy.notional_values, axis=0)
        else:
            vals = vals.div(self.strategy.values, axis=0)
        self._sweights = vals
        return vals
''', "security weights aggregate same-named securities (add on a name collision) and divide by the ROOT strategy's (notional) values; whether notionals are used is decided by the ROOT strategy"),
    (BACKTEST, "Backtest", "herfindahl_index", '''
def ref(self):
    w = self.security_weights
    return (w**2).sum(axis=1)
''', "the Herfindahl index is the row-wise sum of squared security weights"),
    (BACKTEST, "Backtest", "turnover", '''
def ref(self):
    s = self.strategy
    outlays = s.outlays
    outlaysp = outlays[outlays >= 0].fillna(value=0).sum(axis=1)
    outlaysn = np.abs(outlays[outlays < 0].fillna(value=0).sum(axis=1))
    min_outlay = pd.DataFrame({"pos": outlaysp, "neg": outlaysn}).min(axis=1)
    mrg = pd.DataFrame({"outlay": min_outlay, "nav": s.values})
    return mrg["outlay"] / mrg["nav"]
''', "turnover is the lesser of positive and (absolute) negative outlays divided by the strategy's values"),
    (BACKTEST, "Backtest", "positions", '''
def ref(self):
    return self.strategy.positions
''', "the backtest's positions are the strategy's aggregated positions"),
    (CORE, "StrategyBase", "positions", '''
def ref(self):
    if self.root.stale:
        self.root.update(self.root.now, None)
    vals = pd.DataFrame()
    for x in self.members:
        if isinstance(x, SecurityBase):
            if x.name in vals.columns:
                vals[x.name] += x.positions
            else:
                vals[x.name] = x.positions
    self._positions = vals.fillna(0.0)
    return vals
''', "positions aggregate per ticker over every security in the tree (add on a name collision)"),
    (CORE, "StrategyBase", "securities", '''
def ref(self):
    return [x for x in self.members if isinstance(x, SecurityBase)]
''', "the securities of a strategy are all security nodes of the WHOLE tree below it (outlays, turnover and the transaction list are built from them)"),
    (CORE, "StrategyBase", "outlays", '''
def ref(self):
    if self.root.stale:
        self.root.update(self.root.now, None)
    outlays = pd.DataFrame()
    for x in self.securities:
        if x.name in outlays.columns:
            outlays[x.name] += x.outlays
        else:
            outlays[x.name] = x.outlays
    return outlays
''', "outlays aggregate per ticker over every security in the tree (add on a name collision)"),
    (CORE, "StrategyBase", "get_transactions", '''
def ref(self):
    prc = pd.DataFrame({x.name: x.prices for x in self.securities}).unstack()
    positions = pd.DataFrame()
    for x in self.securities:
        if x.name in positions.columns:
            positions[x.name] += x.positions
        else:
            positions[x.name] = x.positions
    trades = positions.diff()
    trades.iloc[0] = positions.iloc[0]
    trades = trades[trades != 0].unstack().dropna()
    if self._bidoffer_set:
        bidoffer = pd.DataFrame({x.name: x.bidoffers_paid for x in self.securities}).unstack()
        prc += bidoffer / trades
    res = pd.DataFrame({"price": prc, "quantity": trades}).dropna(subset=["quantity"])
    res.index.names = ["Security", "Date"]
    res = res.swaplevel().sort_index()
    return res
''', "transaction quantities are the first differences of the aggregated positions (first row restored, zeros dropped) and prices are the security prices plus bid/offer paid per unit traded"),
    (BACKTEST, "Result", "get_weights", '''
def ref(self, backtest=0, filter=None):
    key = self._get_backtest(backtest)
    if filter is not None:
        data = self.backtests[key].weights[filter]
    else:
        data = self.backtests[key].weights
    return data
''', "the Result's component weights are those of the requested backtest (by position or by name), optionally restricted to the given columns"),
    (BACKTEST, "Result", "get_security_weights", '''
def ref(self, backtest=0, filter=None):
    key = self._get_backtest(backtest)
    if filter is not None:
        data = self.backtests[key].security_weights[filter]
    else:
        data = self.backtests[key].security_weights
    return data
''', "the Result's security weights are those of the requested backtest (by position or by name), optionally restricted to the given columns"),
    (BACKTEST, "Result", "get_transactions", '''
def ref(self, strategy_name=None):
    if strategy_name is None:
        strategy_name = self.backtest_list[0].name
    return self.backtests[strategy_name].strategy.get_transactions()
''', "the Result's transactions are those of the named backtest's strategy (the first by default)"),
    (ALGOS, "ReplayTransactions", "__call__", '''
def ref(self, target):
    timeline = target.data.index
    index = timeline.get_loc(target.now)
    end = target.now
    if index == 0:
        start = pd.Timestamp.min
    else:
        start = timeline[index - 1]
    all_transactions = target.get_data(self.transactions)
    timestamps = all_transactions.index.get_level_values("Date")
    transactions = all_transactions[(timestamps > start) & (timestamps <= end)]
    for (_, security), transaction in transactions.iterrows():
        c = target[security]
        c.transact(transaction["quantity"], price=transaction["price"], update=False)
    target.root.update(target.now)
    return True
''', "each transaction stamped in (previous date, now] is replayed on its security at its own price, updates deferred, then the root is refreshed"),
]


# the same reports built on a sibling accessor that is itself checked against its own reference above
ALT_REFS = {
    ("StrategyBase", "get_transactions"): ['''
def ref(self):
    prc = pd.DataFrame({x.name: x.prices for x in self.securities}).unstack()
    positions = self.positions
    trades = positions.diff()
    trades.iloc[0] = positions.iloc[0]
    trades = trades[trades != 0].unstack().dropna()
    if self._bidoffer_set:
        bidoffer = pd.DataFrame({x.name: x.bidoffers_paid for x in self.securities}).unstack()
        prc += bidoffer / trades
    res = pd.DataFrame({"price": prc, "quantity": trades}).dropna(subset=["quantity"])
    res.index.names = ["Security", "Date"]
    res = res.swaplevel().sort_index()
    return res
'''],
}


def result_prices(chk):
    S = chk.summary(BACKTEST, "Result", "__init__", host="Result", no_inline=("__init__",))
    host = "Result.__init__"
    ok = False
    for e in S.events:
        if e.kind == "call" and e.name == "__init__" and e.args:
            pass
    # tmp = [pd.DataFrame({x.name: x.strategy.prices}) for x in backtests]
    for n in [v for e in S.events for v in (list(e.args or []) + ([e.value] if e.value is not None else []))]:
        for nd in sym.walk(n):
            if nd[0] == "comp" and nd[1] == "list" and nd[2][0] == "call" and nd[2][1] == "pd.DataFrame":
                d = nd[2][2][0] if nd[2][2] else None
                if d is not None and d[0] == "dict" and len(d) == 2:
                    k, v = d[1][1], d[1][2]
                    ok = ok or (k[0] == "attr" and k[2] == "name" and v[0] == "attr" and v[2] == "prices" and v[1][0] == "attr" and v[1][2] == "strategy" and canon(v[1][1]) == canon(k[1]))
    chk.ob("C18.R1", ok, BACKTEST, host, "result-wraps-strategy-prices", "the Result's price series of a backtest is that backtest's strategy's index", where=S.fn.where,
           expected="{x.name: x.strategy.prices}")


def aggregation_on_collision(chk):
    """T-PAIR: every loop that builds a per-name table adds on a name collision and assigns otherwise."""
    n = 0
    for f in chk.prog.all_functions(modules=(CORE, BACKTEST)):
        for node in ast.walk(f.node):
            if isinstance(node, ast.For):
                for st in node.body:
                    for sub in ast.walk(st):
                        if not isinstance(sub, ast.If):
                            continue
                        test, body, orelse = sub.test, sub.body, sub.orelse
                        if isinstance(test, ast.UnaryOp) and isinstance(test.op, ast.Not):
                            test, body, orelse = test.operand, orelse, body
                        if isinstance(test, ast.Compare) and len(test.ops) == 1 and isinstance(test.ops[0], ast.NotIn):
                            test = ast.Compare(left=test.left, ops=[ast.In()], comparators=test.comparators)
                            body, orelse = orelse, body
                        if isinstance(test, ast.Compare) and len(test.ops) == 1 and isinstance(test.ops[0], ast.In):
                            left = ast.unparse(test.left)
                            if not left.endswith(".name"):
                                continue

                            def adds(s_):
                                if isinstance(s_, ast.AugAssign) and isinstance(s_.op, ast.Add) and isinstance(s_.target, ast.Subscript) and ast.unparse(s_.target.slice) == left:
                                    return s_.value
                                if isinstance(s_, ast.Assign) and isinstance(s_.targets[0], ast.Subscript) and ast.unparse(s_.targets[0].slice) == left and isinstance(s_.value, ast.BinOp) and \
                                        isinstance(s_.value.op, ast.Add) and ast.unparse(s_.value.left) == ast.unparse(s_.targets[0]):
                                    return s_.value.right
                                return None

                            body_aug = [adds(s_) for s_ in body if adds(s_) is not None]
                            else_asg = [s_ for s_ in orelse if isinstance(s_, ast.Assign) and isinstance(s_.targets[0], ast.Subscript) and ast.unparse(s_.targets[0].slice) == left and adds(s_) is None]
                            if not body_aug and not else_asg:
                                continue
                            if any(isinstance(x_, ast.Raise) for s_ in body for x_ in ast.walk(s_)):
                                continue  # a registry with unique names (a collision is an error), not an aggregation
                            n += 1
                            def _nocopy(n_):
                                # x.copy() holds the same numbers as x (which of the two branches takes the defensive copy is immaterial)
                                s_ = ast.unparse(n_)
                                return s_[:-len(".copy()")] if s_.endswith(".copy()") else s_
                            same = bool(body_aug) and bool(else_asg) and _nocopy(body_aug[0]) == _nocopy(else_asg[0].value)
                            chk.ob("C18.R2", same, f.module, f.qual, "aggregate-on-collision", "same-named securities are aggregated: add on a name collision, assign otherwise, the same series in both",
                                   where="%s:%d" % (f.module, sub.lineno), found=ast.unparse(sub)[:160], sample={"site": f.qual})
    chk.floor_count("C18.R2:aggregation loops", n, 2)


def first_row_of_possibly_empty(chk):
    """C18.R5: `.iloc[0]` on a frame accumulated over a collection that may be empty, without an emptiness guard."""
    S = chk.summary(CORE, "StrategyBase", "get_transactions", host="StrategyBase")
    host = "StrategyBase.get_transactions"
    for e in S.events:
        if e.kind == "store" and e.base[0] == "attr" and e.base[2] == "iloc" and canon(e.index) == canon(sym.ZERO):
            v = e.value
            src = None
            for n in sym.walk(v):
                if n[0] == "loopval" or (n[0] == "call" and n[1] == "pd.DataFrame" and not n[2]):
                    src = n
            guarded = any(sym.contains(a, lambda x: x[0] == "call" and x[1] == "len") or sym.contains(a, lambda x: x[0] == "attr" and x[2] == "empty") for a, p in plain(e.guard))
            chk.ob("C18.R5", guarded or src is None, CORE, host, "first-row-of-possibly-empty",
                   "the first row of a table accumulated over the tree's securities is read without a guard: a run with no securities (no trades at all) raises IndexError instead of "
                   "reporting an empty transaction list", where=e.where, expected="guard against an empty table", found=short(v, 120))


def run(chk):
    chk.explain("C18: every report is equivalent to a reference model (truth table over branch atoms; pandas expressions in canonical form): component weights, security weights "
                "(aggregation on collision, fixed-income switch decided by the ROOT), Herfindahl, turnover, positions, outlays, transactions with bid/offer adjustment, the Result "
                "delegation, ReplayTransactions' window and bracket; every per-name aggregation loop adds on collision; security history accessors self-refresh; first-row access of a "
                "possibly empty table.")
    chk.assume("replay round-trip (a relation between two runs), ffn statistics and plotting are not decided")
    for mod, cls, name, src, what in REFS:
        check_equiv(chk, "C18.R1" if cls != "ReplayTransactions" else "C18.R4", mod, cls, name, src, "report-formula", "%s.%s: %s" % (cls, name, what), no_inline=("update", "get_transactions"), limit=14, ignore_refresh=True,
                    alt_refs=ALT_REFS.get((cls, name), ()))
    result_prices(chk)
    aggregation_on_collision(chk)
    core_rules.accessor_rules(chk, "C18")
    core_rules.fresh_read_rules(chk, "C18")
    n = core_rules.defer_rules(chk, "C18", modules=(ALGOS,), only_hosts=("ReplayTransactions.__call__", "SimulateRFQTransactions.__call__"))
    chk.floor_count("C18.R4:deferred calls in replay algos", n, 2)
    first_row_of_possibly_empty(chk)
    core_rules.transact_rules(chk, "C18")
    core_rules.security_setup_rules(chk, "C18")  # the bid/offer-paid history behind the reported execution prices  # custom-price trades need bid/offer tracking for the reported prices to be the execution prices
    tree_rules.full_name_members(chk, "C18")
    core_rules.security_update(chk, "C18")  # the bid/offer-paid row behind the reported execution price is recorded whenever it is recomputed
