"""C02 - value is conserved (DESIGN 5/C02)."""
from . import backtest_rules, core_rules


def run(chk):
    chk.explain("C02: value can change only through price moves and explicit costs - (R1) a trade moves the parent's cash by minus the full outlay of exactly the traded quantity; "
                "(R2) capital moved between a parent and a sub-strategy is debited and credited symmetrically; (R3) the coupon sweep adds to the parent exactly what it zeroes on the "
                "children; (R4) cash and positions have no other writers anywhere in the program; plus the value formulas of C01 that the reconciliation relies on.")
    core_rules.security_update(chk, "C02")
    core_rules.strategy_update(chk, "C02")
    core_rules.outlay_rules(chk, "C02")
    core_rules.transact_rules(chk, "C02")
    core_rules.adjust_rules(chk, "C02")
    core_rules.strategy_allocate_rules(chk, "C02")
    core_rules.coupon_accrual(chk, "C02")
    core_rules.ownership_rules(chk, "C02", roles=("CAPITAL", "POSITION"))
    core_rules.refresh_before_trade(chk, "C02")
    backtest_rules.run_loop(chk, "C02")
    core_rules.security_setup_rules(chk, "C02")  # the value / position histories hold exactly what update writes (float columns)
    from .c17 import strategy_transact
    strategy_transact(chk)
    # the attribution sums position x price change over every security of the tree: the strategy's position rows are the per-name sums of the securities' rows
    from .algo_equiv import check_equiv
    from .c18 import REFS as REPORT_REFS
    for mod, cls, name, src, what in REPORT_REFS:
        if (cls, name) == ("StrategyBase", "positions"):
            check_equiv(chk, "C18.R1", mod, cls, name, src, "report-formula", "%s.%s: %s" % (cls, name, what), no_inline=("update", "get_transactions"), limit=14, ignore_refresh=True)
