"""C01 - balance-sheet identity at every node (DESIGN 5/C01)."""
from . import backtest_rules, core_rules


def run(chk):
    chk.explain("C01: inductive shape argument - (1) every `update` establishes value = cash + children / position x price x multiplier, child weights and the per-date rows "
                "(gated value graph of each update compared with reference models in normal form); (2) the flat-security shortcut is sound (needupdate typestate); "
                "(3) every mutator of primary state marks the tree stale or sits in a deferred-update bracket, and every accessor of derived state refreshes first.")
    core_rules.security_update(chk, "C01")
    core_rules.strategy_update(chk, "C01")
    core_rules.transact_rules(chk, "C01")
    core_rules.adjust_rules(chk, "C01")
    n = core_rules.defer_rules(chk, "C01")
    chk.floor_count("C01.R6:deferred-update call sites", n, 7)
    core_rules.accessor_rules(chk, "C01")
    core_rules.fresh_read_rules(chk, "C01")
    core_rules.update_after_liquidation(chk, "C01")
    core_rules.security_setup_rules(chk, "C01")
    backtest_rules.run_loop(chk, "C01")
    # the position rows a strategy reports are the per-name sums of its securities' recorded position rows
    from .algo_equiv import check_equiv
    from .c18 import REFS as REPORT_REFS
    for mod, cls, name, src, what in REPORT_REFS:
        if (cls, name) == ("StrategyBase", "positions"):
            check_equiv(chk, "C18.R1", mod, cls, name, src, "report-formula", "%s.%s: %s" % (cls, name, what), no_inline=("update", "get_transactions"), limit=14, ignore_refresh=True)
