"""C10 - well-formed runs complete; ill-formed states raise (DESIGN 5/C10)."""
from . import core_rules, tree_rules
from .c05 import run as _c05  # noqa: F401


def run(chk):
    chk.explain("C10: (R1) one guard per ill-formed class the property enumerates, each dominating the effect it protects: NaN/zero price in allocate, NaN price or NaN coupon on an "
                "open position, duplicate columns, return on a zero base (both index branches), fixed-income child under a market-value parent, custom price without bid/offer data; "
                "(R2) every division of the accounting engine is guarded; (R3) the sizing loop has an iteration cap that raises; (R4) in-place history writes go through a writable "
                "view under the installed pandas (environment fact read from installed metadata and setup.py).")
    chk.assume("'every well-formed backtest completes with finite numbers' is universally quantified over inputs and over pandas/ffn/matplotlib behaviour: not decided, only the listed "
               "guard, division, termination and write-site clauses")
    core_rules.nan_price_guard(chk, "C10")
    core_rules.coupon_accrual(chk, "C10")
    core_rules.security_setup_rules(chk, "C10")  # optional cost tables may lack a column for a security: set-up completes (None), it does not die with KeyError
    core_rules.strategy_update(chk, "C10")
    core_rules.transact_rules(chk, "C10")
    tree_rules.setup_guards(chk, "C10")
    tree_rules.backtest_init_rules(chk, "C10")
    price_guard_in_allocate(chk)
    no_truth_test_of_pandas_entries(chk)
    from .c06 import close_flatten
    close_flatten(chk, "C10")  # closing works for every kind of child: what is read of the child (value / position) is read only on the branch whose children have it
    from . import backtest_rules
    backtest_rules.additional_data_only_prepended(chk)  # additional tables keep their own columns (an added all-NaN column is a NaN spread / coupon on a traded ticker)
    from .c14 import tradability
    tradability(chk)  # by default nothing without a usable price today is selected (allocating to it raises)
    from .c05 import loop_step
    loop_step(chk)  # a wrong step makes the search diverge and raise on well-formed input
    core_rules.division_guards(chk, "C10")
    core_rules.sizing_loop_cap(chk, "C10")
    core_rules.writable_history_views(chk, "C10")
    n = core_rules.row_hint_rules(chk, "C10")  # a wrong row hint makes a well-formed run read the NaN row Backtest prepends (or another date's prices) and raise
    chk.floor_count("C08.R4:row hints passed to update()", n, 4)
    from .algo_equiv import check_equiv
    from .c14 import random_sample
    random_sample(chk)  # sampling never asks for more names than are tradable (random.sample would raise)
    from .c15 import REFS as WEIGH_REFS
    src_, what_ = WEIGH_REFS["WeighRandomly"]
    check_equiv(chk, "C15.R1", "bt/algos.py", "WeighRandomly", "__call__", src_, "documented-weights", "WeighRandomly: %s" % what_, limit=16)
    from .c20 import REFS as RISK_REFS, ALT_REFS as RISK_ALT
    for cls, name, src, what in RISK_REFS:
        if cls in ("ClosePositionsAfterDates", "RollPositionsAfterDates"):
            # well-formed nested trees complete: only the target's own security children are looked up in the date tables
            check_equiv(chk, "C20.R3", "bt/algos.py", cls, name, src, "documented-behaviour", "%s.%s: %s" % (cls, name, what), limit=14, alt_refs=RISK_ALT.get((cls, name), ()))
        if (cls, name) == ("UpdateRisk", "_set_risk_recursive"):
            # finite numbers: a flat position has zero risk whatever its (possibly missing) unit risk is
            check_equiv(chk, "C20.R1", "bt/algos.py", cls, name, src, "documented-behaviour", "%s.%s: %s" % (cls, name, what), no_inline=("_set_risk_recursive",), limit=14)


PANDAS_TEMP_KEYS = ("selected", "weights", "stat")  # entries of temp that stock algos fill with a list / dict OR with a pandas Index / Series


def no_truth_test_of_pandas_entries(chk):
    """`if not selected:` raises "truth value ... is ambiguous" as soon as an upstream algo left a pandas Index / Series there (SelectAll(include_no_data=True), WeighTarget,
    SetStat): emptiness of these entries is tested through len()."""
    import ast

    def temp_entry(x):
        if isinstance(x, ast.Subscript) and isinstance(x.value, ast.Attribute) and x.value.attr == "temp" and isinstance(x.slice, ast.Constant) and x.slice.value in PANDAS_TEMP_KEYS:
            return x.slice.value
        if (isinstance(x, ast.Call) and isinstance(x.func, ast.Attribute) and x.func.attr == "get" and isinstance(x.func.value, ast.Attribute) and x.func.value.attr == "temp"
                and x.args and isinstance(x.args[0], ast.Constant) and x.args[0].value in PANDAS_TEMP_KEYS and len(x.args) == 1):
            return x.args[0].value
        return None

    n = 0
    for f in chk.prog.all_functions(modules=("bt/algos.py",)):
        n += 1
        bound = {}
        for node in ast.walk(f.node):
            if isinstance(node, ast.Assign) and len(node.targets) == 1 and isinstance(node.targets[0], ast.Name):
                k = temp_entry(node.value)
                nm = node.targets[0].id
                if k is not None and nm not in bound:
                    bound[nm] = k
                elif nm in bound and k is None:
                    bound[nm] = None  # re-bound to something else: not tracked
        tests, seen = [], set()
        for node in ast.walk(f.node):
            if isinstance(node, (ast.If, ast.While, ast.IfExp)):
                tests.append(node.test)
            elif isinstance(node, ast.BoolOp):
                tests.extend(node.values)
            elif isinstance(node, ast.UnaryOp) and isinstance(node.op, ast.Not):
                tests.append(node.operand)
            elif isinstance(node, ast.Call) and isinstance(node.func, ast.Name) and node.func.id == "bool" and len(node.args) == 1:
                tests.append(node.args[0])
        for t in tests:
            while isinstance(t, ast.UnaryOp) and isinstance(t.op, ast.Not):
                t = t.operand
            k = temp_entry(t) or (bound.get(t.id) if isinstance(t, ast.Name) else None)
            if k is not None and (t.lineno, t.col_offset) not in seen:
                seen.add((t.lineno, t.col_offset))
                chk.ob("C10.R1", False, "bt/algos.py", f.qual, "truth-test:%s" % k, "temp[%r] may hold a pandas Index / Series (other stock algos put one there): its truth value raises ValueError" % k,
                       where="%s:%d" % (f.module, t.lineno), expected="len(...) == 0 / `in` tests", found="truth test of %s" % ast.unparse(t))
    chk.floor_count("C10.R1:algo functions scanned for truth tests of pandas entries", n, 100)


def price_guard_in_allocate(chk):
    from .. import sym
    from ..evalfn import SELF
    from ..sym import canon
    from .common import CORE, G, Roles, cur

    R = Roles(chk.prog)
    S = chk.summary(CORE, "SecurityBase", "allocate", host="SecurityBase", no_inline=("outlay", "transact", "update", "commission"))
    host = "SecurityBase.allocate"
    for e in [x for x in S.calls("transact") + S.calls("outlay") if x.recv == SELF]:
        g = G(e)
        p = cur(e, SELF, R.SPRICE)
        ok = sym.lit_holds(g, ("zero", sym._abs_norm(sym.to_rat(p))), False) and sym.lit_holds(g, ("isnan", canon(p)), False)
        chk.ob("C10.R1", ok, CORE, host, "guard:nan-or-zero-price:%s" % e.name, "a trade at a missing or zero price raises before anything is sized or booked", where=e.where,
               expected="raise under is_zero(price) or isnan(price)", found=sym.fmt_guard(e.guard)[:200])
    core_rules.refresh_before_trade(chk, "C10")
