"""C10 - well-formed runs complete; ill-formed states raise (DESIGN 5/C10)."""
from . import core_rules, tree_rules
from .c05 import run as _c05  # noqa: F401


def run(chk):
    chk.explain("C10: (R1) one guard per ill-formed class the property enumerates, each dominating the effect it protects: NaN/zero price in allocate, NaN price or NaN coupon on an "
                "open position, duplicate columns, return on a zero base (both index branches), fixed-income child under a market-value parent, custom price without bid/offer data; "
                "(R2) every division of the accounting engine is guarded; (R3) the sizing loop has an iteration cap that raises; (R4) in-place history writes go through a writable "
                "view under the installed pandas (environment fact read from installed metadata and setup.py).")
    chk.assume("'every well-formed backtest completes with finite numbers' is universally quantified over inputs and over pandas/ffn/matplotlib behaviour: not decided, only the listed "
               "guard, division, termination and write-site clauses")
    core_rules.nan_price_guard(chk, "C10")
    core_rules.coupon_accrual(chk, "C10")
    core_rules.security_setup_rules(chk, "C10")  # optional cost tables may lack a column for a security: set-up completes (None), it does not die with KeyError
    core_rules.strategy_update(chk, "C10")
    core_rules.transact_rules(chk, "C10")
    tree_rules.setup_guards(chk, "C10")
    tree_rules.backtest_init_rules(chk, "C10")
    price_guard_in_allocate(chk)
    from . import backtest_rules
    backtest_rules.additional_data_only_prepended(chk)  # additional tables keep their own columns (an added all-NaN column is a NaN spread / coupon on a traded ticker)
    from .c14 import tradability
    tradability(chk)  # by default nothing without a usable price today is selected (allocating to it raises)
    from .c05 import loop_step
    loop_step(chk)  # a wrong step makes the search diverge and raise on well-formed input
    core_rules.division_guards(chk, "C10")
    core_rules.sizing_loop_cap(chk, "C10")
    core_rules.writable_history_views(chk, "C10")
    from .algo_equiv import check_equiv
    from .c14 import random_sample
    random_sample(chk)  # sampling never asks for more names than are tradable (random.sample would raise)
    from .c15 import REFS as WEIGH_REFS
    src_, what_ = WEIGH_REFS["WeighRandomly"]
    check_equiv(chk, "C15.R1", "bt/algos.py", "WeighRandomly", "__call__", src_, "documented-weights", "WeighRandomly: %s" % what_, limit=16)
    from .c20 import REFS as RISK_REFS
    for cls, name, src, what in RISK_REFS:
        if cls in ("ClosePositionsAfterDates", "RollPositionsAfterDates"):
            # well-formed nested trees complete: only the target's own security children are looked up in the date tables
            check_equiv(chk, "C20.R3", "bt/algos.py", cls, name, src, "documented-behaviour", "%s.%s: %s" % (cls, name, what), limit=14)
        if (cls, name) == ("UpdateRisk", "_set_risk_recursive"):
            # finite numbers: a flat position has zero risk whatever its (possibly missing) unit risk is
            check_equiv(chk, "C20.R1", "bt/algos.py", cls, name, src, "documented-behaviour", "%s.%s: %s" % (cls, name, what), no_inline=("_set_risk_recursive",), limit=14)


def price_guard_in_allocate(chk):
    from .. import sym
    from ..evalfn import SELF
    from ..sym import canon
    from .common import CORE, G, Roles, cur

    R = Roles(chk.prog)
    S = chk.summary(CORE, "SecurityBase", "allocate", host="SecurityBase", no_inline=("outlay", "transact", "update", "commission"))
    host = "SecurityBase.allocate"
    for e in [x for x in S.calls("transact") + S.calls("outlay") if x.recv == SELF]:
        g = G(e)
        p = cur(e, SELF, R.SPRICE)
        ok = sym.lit_holds(g, ("zero", sym._abs_norm(sym.to_rat(p))), False) and sym.lit_holds(g, ("isnan", canon(p)), False)
        chk.ob("C10.R1", ok, CORE, host, "guard:nan-or-zero-price:%s" % e.name, "a trade at a missing or zero price raises before anything is sized or booked", where=e.where,
               expected="raise under is_zero(price) or isnan(price)", found=sym.fmt_guard(e.guard)[:200])
    core_rules.refresh_before_trade(chk, "C10")
