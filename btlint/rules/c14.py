"""C14 - selection algos select exactly the documented, tradable set (DESIGN 5/C14)."""
from .. import sym
from . import backtest_rules
from ..evalfn import SELF, property_backing
from ..sym import canon
from . import tree_rules
from .algo_equiv import check_equiv
from .common import ALGOS, CORE, G, plain, short

TARGET = ("param", "target")
NOW = ("fld", TARGET, "now", 0)
TEMP = ("fld", TARGET, "temp", 0)


class Prov(object):
    """E8 - provenance of filters: which filters has a value been through?"""

    def __init__(self, universe_fields):
        self.uf = set(universe_fields)

    def is_universe(self, v):
        return (v[0] == "fld" and v[2] in self.uf and v[1] == TARGET) or (v[0] == "prop" and v[2] == "universe")

    def row_at_now(self, v):
        """universe.loc[now] / universe.loc[now, cols] -> cols value or True"""
        if v[0] == "sub" and v[1][0] == "attr" and v[1][2] == "loc" and self.is_universe(v[1][1]):
            idx = v[2]
            if canon(idx) == canon(NOW):
                return ("all",)
            if idx[0] == "tuple" and len(idx) == 3 and canon(idx[1]) == canon(NOW):
                return idx[2]
        return None

    def prov(self, v):
        t = v[0]
        if t == "call" and v[1] in ("list", "tuple", "sorted", "pd.Index") and v[2]:
            return self.prov(v[2][0])
        if t == "call" and v[1] in ("random.sample",) and v[2]:
            return self.prov(v[2][0])
        if t == "attr" and v[2] == "index":
            return self.prov(v[1])
        if t == "mcall":
            if v[2] == "dropna":
                return self.prov(v[1]) | {"NOTNA"}
            if v[2] in ("tolist", "copy", "keys"):
                return self.prov(v[1])
            return set()
        if t == "+":
            # resolved + pass-through (ResolveOnTheRun): the documented filter applies to the resolved part
            return self.prov(v[1])
        if t == "sub":
            base, idx = v[1], v[2]
            cols = self.row_at_now(v)
            if cols is not None:
                tags = {"ROW_AT_NOW", "UNIVERSE"}
                if cols != ("all",):
                    tags |= set("VIA:" + x for x in self.prov(cols))
                return tags
            mt = self.mask_tags(idx, base)
            if mt is not None:
                return self.prov(base) | mt
            if idx[0] == "slice":
                return self.prov(base)
            return self.prov(base)
        if t == "ite":
            return self.prov(v[2]) & self.prov(v[3])
        return set()

    def mask_tags(self, m, base):
        """tags contributed by a boolean mask used as a subscript"""
        if m[0] == "cmp" and len(m) == 4:
            op, a, b = m[1], m[2], m[3]
            za = sym.to_rat(b).const_value() if b[0] in ("num", "+", "-", "*", "neg") else None
            if op in (">", ">=") and za == 0:
                tags = {"POSITIVE" if op == ">" else "NONNEG"}
                if canon(a) == canon(base) or self.row_at_now(a) is not None or self.row_at_now(_strip_dropna(a)) is not None:
                    if self.row_at_now(_strip_dropna(a)) is not None or "ROW_AT_NOW" in self.prov(a):
                        tags |= {"ROW_AT_NOW"}
                    return tags
                return None
            if op == "==" and canon(b) == canon(sym.TRUE) and canon(a) == canon(base):
                return {"EQ_TRUE"}
            if op in (">=",) and canon(a) == canon(base):
                return {"GE:" + short(b, 40)}
            return None
        if m[0] == "invert" and m[1][0] == "mcall" and m[1][2] in ("isnull", "isna") and self.row_at_now(m[1][1]) is not None:
            return {"NOTNA", "ROW_AT_NOW", "UNIVERSE"}
        if m[0] == "mcall" and m[2] in ("notnull", "notna") and self.row_at_now(m[1]) is not None:
            return {"NOTNA", "ROW_AT_NOW", "UNIVERSE"}
        return None


def _strip_dropna(v):
    while v[0] == "mcall" and v[2] == "dropna":
        v = v[1]
    return v


TRADABLE = ["SelectAll", "SelectThese", "SelectWhere", "SelectRandomly", "ResolveOnTheRun", "SelectHasData"]


def tradability(chk):
    ub = property_backing(chk.prog.func(CORE, "StrategyBase", "universe"))
    P = Prov([ub[1]] if ub[0] == "field" else [])
    no_data = ("fld", SELF, "include_no_data", 0)
    negative = ("fld", SELF, "include_negative", 0)
    for cls in TRADABLE:
        fi = chk.prog.func(ALGOS, cls, "__call__")
        S = chk.summary(ALGOS, cls, "__call__", host=cls)
        host = "%s.__call__" % cls
        chk.site()
        stores = [e for e in S.events if e.kind == "store" and canon(e.index) == canon(("str", "selected")) and canon(e.base) == canon(TEMP)]
        chk.need(stores, "%s no longer sets temp['selected']" % host)
        n_checked = 0
        for e in stores:
            for nd, ng in ((False, False), (False, True)):
                g = sym.sat(tuple(G(e)) + ((no_data, nd), (negative, ng)))
                if sym.inconsistent(g):
                    continue
                v = sym.restrict(e.value, g)
                tags = P.prov(v)
                want = {"ROW_AT_NOW", "NOTNA", "UNIVERSE"} | (set() if ng else {"POSITIVE"})
                ok = want <= tags
                n_checked += 1
                chk.ob("C14.R1", ok, ALGOS, host, "tradable:%s" % ("with-negative" if ng else "default"),
                       "by default the selection holds only tickers of the strategy's universe whose current price is present%s" % ("" if ng else " and strictly positive"),
                       where=e.where, expected=", ".join(sorted(want)), found=", ".join(sorted(t for t in tags if not t.startswith("VIA:"))) or "no filter",
                       sample={"algo": cls, "filters": sorted(tags), "value": short(v, 140)})
        chk.need(n_checked >= 2, "%s: the default-flag paths could not be evaluated" % host)


WHERE_SIGNAL = "signal row at now, entries equal to True"

SELECT_WHERE_REF = '''
def ref(self, target):
    if self.signal_name is None:
        signal = self.signal
    else:
        signal = target.get_data(self.signal_name)
    if target.now in signal.index:
        sig = signal.loc[target.now]
        selected = sig[sig == True].index
        if not self.include_no_data:
            universe = target.universe.loc[target.now, list(selected)].dropna()
            if self.include_negative:
                selected = list(universe.index)
            else:
                selected = list(universe[universe > 0].index)
        target.temp["selected"] = list(selected)
    return True
'''


def select_where(chk):
    from .algo_equiv import check_equiv
    ok_eq = check_equiv(chk, "C14.R1", ALGOS, "SelectWhere", "__call__", SELECT_WHERE_REF, "signal-selection",
                        "SelectWhere: on a date the signal has, exactly the tickers whose signal equals True (a missing signal is not True), tradable ones unless told otherwise; "
                        "on any other date the selection is left alone", limit=14)
    if ok_eq:
        return  # equivalent to the reference, however the row is looked up
    S = chk.summary(ALGOS, "SelectWhere", "__call__", host="SelectWhere")
    host = "SelectWhere.__call__"
    fi = S.fn
    ub = property_backing(chk.prog.func(CORE, "StrategyBase", "universe"))
    P = Prov([ub[1]] if ub[0] == "field" else [])
    stores = [e for e in S.events if e.kind == "store" and canon(e.index) == canon(("str", "selected"))]
    for e in stores:
        g = G(e)
        # the store happens only when now is in the signal's index
        sig_frames = [a for a, p in g if p and a[0] == "in" and canon(a[1]) == canon(NOW)]
        chk.ob("C14.R1", bool(sig_frames), ALGOS, host, "signal-date-present", "nothing is selected from the signal on a date the signal does not have", where=e.where)
        for nd in (True, False):
            gg = sym.sat(tuple(g) + ((("fld", SELF, "include_no_data", 0), nd), (("fld", SELF, "include_negative", 0), False)))
            v = sym.restrict(e.value, gg)
            tags = P.prov(v)
            flat = set(t[4:] if t.startswith("VIA:") else t for t in tags)
            # find the signal row
            ok_row = False
            for n in sym.walk(v):
                if n[0] == "sub" and n[2][0] == "cmp" and len(n[2]) == 4 and n[2][1] == "==" and canon(n[2][3]) == canon(sym.TRUE) and canon(n[2][2]) == canon(n[1]):
                    row = n[1]
                    ok_row = row[0] == "sub" and row[1][0] == "attr" and row[1][2] == "loc" and canon(row[2]) == canon(NOW)
            ok = "EQ_TRUE" in flat and ok_row
            chk.ob("C14.R1", ok, ALGOS, host, "signal-true:%s" % ("no-data" if nd else "default"),
                   "exactly the tickers whose signal on the current date equals True are selected (a missing signal is not True)", where=e.where,
                   expected="sig[sig == True].index with sig = signal.loc[now]", found=short(v, 200), sample={"value": short(v, 160)})


HASDATA_REF = '''
def ref(self, target):
    if "selected" in target.temp:
        selected = target.temp["selected"]
    else:
        selected = target.universe.columns
    filt = target.universe.loc[target.now - self.lookback :, selected]
    cnt = filt.count()
    cnt = cnt[cnt >= self.min_count]
    if not self.include_no_data:
        cnt = cnt[~target.universe.loc[target.now, selected].isnull()]
        if not self.include_negative:
            cnt = cnt[target.universe.loc[target.now, selected] > 0]
    target.temp["selected"] = list(cnt.index)
    return True
'''

WINDOW_REFS = {
    "StatTotalReturn": '''
def ref(self, target):
    selected = target.temp["selected"]
    t0 = target.now - self.lag
    if target.universe[selected].index[0] > t0:
        return False
    prc = target.universe.loc[t0 - self.lookback : t0, selected]
    target.temp["stat"] = prc.calc_total_return()
    return True
''',
    "SetStat": '''
def ref(self, target):
    if self.stat_name is None:
        stat = self.stat
    else:
        stat = target.get_data(self.stat_name)
    t0 = target.now - self.lag
    if t0 not in stat.index:
        return False
    target.temp["stat"] = stat.loc[t0]
    return True
''',
    "SelectN": '''
def ref(self, target):
    stat = target.temp["stat"].dropna()
    if self.filter_selected and "selected" in target.temp:
        stat = stat.loc[stat.index.intersection(target.temp["selected"])]
    stat.sort_values(ascending=self.ascending, inplace=True)
    keep_n = self.n
    if self.n < 1:
        keep_n = int(self.n * len(stat))
    sel = list(stat[:keep_n].index)
    if self.all_or_none and len(sel) < keep_n:
        sel = []
    target.temp["selected"] = sel
    return True
''',
    "SelectRegex": '''
def ref(self, target):
    selected = target.temp["selected"]
    selected = [s for s in selected if self.regex.search(s)]
    target.temp["selected"] = selected
    return True
''',
    "SelectTypes": '''
def ref(self, target):
    selected = [sec_name for sec_name, sec in target.children.items() if isinstance(sec, self.include_types) and not isinstance(sec, self.exclude_types)]
    if "selected" in target.temp:
        selected = [s for s in selected if s in target.temp["selected"]]
    target.temp["selected"] = selected
    return True
''',
    "SelectActive": '''
def ref(self, target):
    selected = target.temp["selected"]
    rolled = target.perm.get("rolled", set())
    closed = target.perm.get("closed", set())
    selected = [s for s in selected if s not in set.union(rolled, closed)]
    target.temp["selected"] = selected
    return True
''',
}

WHAT = {
    "StatTotalReturn": "the statistic is the total return over exactly [now - lag - lookback, now - lag] of the selected tickers, and the algo fails when the data starts after now - lag",
    "SetStat": "the statistic is the supplied frame's row at exactly now - lag, and the algo fails when that row does not exist",
    "SelectN": "NaN stats dropped, restricted to the prior selection when filter_selected, sorted as requested, the first n (or int(n x len) of the FILTERED stat when n < 1) kept, emptied under all_or_none when short",
    "SelectRegex": "the prior selection filtered by the regular expression",
    "SelectTypes": "children of the included and not excluded types, intersected with the prior selection",
    "SelectActive": "the prior selection without rolled or closed securities",
}


def select_n_init(chk):
    I = chk.summary(ALGOS, "SelectN", "__init__", host="SelectN", depth=3)
    w = {x.field: x for x in I.writes(None, SELF)}
    ok = "ascending" in w and canon(w["ascending"].value) == canon(("not", ("param", "sort_descending"))) and "n" in w and canon(w["n"].value) == canon(("param", "n"))
    chk.ob("C14.R3", ok, ALGOS, "SelectN.__init__", "sort-direction", "sort_descending selects the best (largest) first", where=I.fn.where)
    M = chk.summary(ALGOS, "SelectMomentum", "__init__", host="SelectMomentum", no_inline=("__init__",))
    news = [e for e in M.events if e.kind == "call" and e.extra == "new"]
    ok = False
    st = [e for e in news if e.name == "StatTotalReturn"]
    sn = [e for e in news if e.name == "SelectN"]
    if st and sn:
        ok = canon(st[0].kwargs.get("lookback", sym.NONE)) == canon(("param", "lookback")) and canon(st[0].kwargs.get("lag", sym.NONE)) == canon(("param", "lag")) and \
            canon(sn[0].kwargs.get("n", sym.NONE)) == canon(("param", "n")) and canon(sn[0].kwargs.get("sort_descending", sym.NONE)) == canon(("param", "sort_descending")) and \
            canon(sn[0].kwargs.get("all_or_none", sym.NONE)) == canon(("param", "all_or_none"))
    chk.ob("C14.R3", ok, ALGOS, "SelectMomentum.__init__", "momentum-is-total-return-then-select-n", "SelectMomentum is StatTotalReturn followed by SelectN with its parameters passed through",
           where=M.fn.where)


def has_data_window(chk):
    S = chk.summary(ALGOS, "SelectHasData", "__call__", host="SelectHasData")
    host = "SelectHasData.__call__"
    e = [x for x in S.events if x.kind == "store" and canon(x.index) == canon(("str", "selected"))][-1]
    ok_win = ok_cnt = False
    for n in sym.walk(e.value):
        if n[0] == "sub" and n[1][0] == "attr" and n[1][2] == "loc" and n[2][0] == "tuple" and n[2][1][0] == "slice":
            sl = n[2][1]
            ok_win = ok_win or (canon(sl[1]) == canon(("-", NOW, ("fld", SELF, "lookback", 0))) and sl[2] == sym.NONE)
        if n[0] == "sub" and n[2][0] == "cmp" and len(n[2]) == 4 and n[2][1] == ">=" and canon(n[2][3]) == canon(("fld", SELF, "min_count", 0)) and canon(n[2][2]) == canon(n[1]):
            ok_cnt = ok_cnt or (n[1][0] == "mcall" and n[1][2] == "count")
    chk.ob("C14.R2", ok_win, ALGOS, host, "count-window", "data points are counted over [now - lookback, now] of the (windowed) universe", where=e.where)
    chk.ob("C14.R2", ok_cnt, ALGOS, host, "min-count", "a ticker is kept when its count in the window is at least min_count", where=e.where)


def random_sample(chk):
    S = chk.summary(ALGOS, "SelectRandomly", "__call__", host="SelectRandomly")
    host = "SelectRandomly.__call__"
    e = [x for x in S.events if x.kind == "store" and canon(x.index) == canon(("str", "selected"))][-1]
    g = sym.sat(tuple(G(e)) + ((("isnone", ("fld", SELF, "n", 0)), False),))
    v = sym.restrict(e.value, g)
    ok = False
    for n in sym.walk(v):
        if n[0] == "call" and n[1] == "random.sample" and len(n[2]) == 2:
            pop, k = n[2]
            want = ("call", "int", (("ite", ("cmp", "<", ("fld", SELF, "n", 0), ("call", "len", (pop,), ())), ("fld", SELF, "n", 0), ("call", "len", (pop,), ())),), ())
            ok = canon(k) == canon(want)
    chk.ob("C14.R4", ok, ALGOS, host, "sample-size", "min(n, len) tickers are drawn from the (filtered) prior selection", where=e.where, found=short(v, 200))


def run(chk):
    chk.explain("C14: (R1) filter provenance of temp['selected'] in the six tradability-filtering algos on both flag paths: row of the strategy's universe at now, NaN dropped, strictly "
                "positive; SelectWhere keeps exactly the signal's True entries at now; (R2) windows of SelectHasData / StatTotalReturn / SetStat; (R3) SelectN and the refining filters "
                "are equivalent to reference models (truth table over branch atoms, canonical pandas expressions); SelectMomentum wiring; (R4) sample size.")
    chk.assume("ffn's calc_total_return, pandas sort_values tie-breaking and the random generator are not decided")
    tradability(chk)
    backtest_rules.additional_data_only_prepended(chk)  # SetStat / SelectWhere rely on "no row at now" of sparse named data
    select_where(chk)
    has_data_window(chk)
    check_equiv(chk, "C14.R2", ALGOS, "SelectHasData", "__call__", HASDATA_REF, "documented-set",
                "SelectHasData: tickers with at least min_count observations in the window; the current-price filters apply only when include_no_data is off (and the positivity filter only within it)")
    for cls, src in WINDOW_REFS.items():
        rule = "C14.R2" if cls in ("StatTotalReturn", "SetStat") else ("C14.R3" if cls == "SelectN" else "C14.R4")
        check_equiv(chk, rule, ALGOS, cls, "__call__", src, "documented-set", "%s: %s" % (cls, WHAT[cls]))
    select_n_init(chk)
    from .c20 import REFS as RISK_REFS, ALT_REFS as _C20_ALT
    for cls_, name_, src_, what_ in RISK_REFS:
        if cls_ in ("ClosePositionsAfterDates", "RollPositionsAfterDates"):
            check_equiv(chk, "C20.R3", ALGOS, cls_, name_, src_, "documented-behaviour", "%s.%s: %s" % (cls_, name_, what_), limit=14, alt_refs=_C20_ALT.get((cls_, name_), ()))
    random_sample(chk)
    # "never a ticker outside the strategy's universe": what the universe is (declared tickers present in the data, all if none declared)
    tree_rules.universe_rules(chk, "C19")
    from .c19 import NODE_INIT_REF
    check_equiv(chk, "C19.R1", CORE, "Node", "__init__", NODE_INIT_REF, "node-construction",
                "a node without a parent is its own parent and root (integer positions by default); with a parent it is attached to it (not copied); declared children are attached as copies",
                no_inline=("_add_children",), ignore_fields=("_original_children_are_present",))
    tree_rules.declared_children_flag(chk)
