"""E7 - extent / access classifier for time-indexed objects (C04 no look-ahead; shared by C14/C15 windows).

Abstract extents: FULL (time-indexed, may contain rows after now), WINDOWED (all rows <= now),
ROW (one row <= now), INDEX (dates / labels only), KEYED (indexed by something other than time),
OTHER.  Time expressions: NOW, NOW_MINUS, BEFORE (an index element at a position < POS), UNKNOWN, AFTER.

The classifier walks the symbolic values that reach the sinks of an algo (every value in an event
of its gated value graph: arguments of node calls, stored values, returns, branch conditions) and
demands that every occurrence of a FULL object is consumed by a now-bounded access form.
"""

from .. import sym
from ..evalfn import SELF
from ..sym import canon

FULL, WINDOWED, ROW, INDEX, KEYED, OTHER, POS = "FULL", "WINDOWED", "ROW", "INDEX", "KEYED", "OTHER", "POS"

# methods that keep the time extent of their receiver (row-wise / label-wise transforms, no reach beyond the rows given)
KEEP = {"copy", "dropna", "get", "fillna", "isnull", "notnull", "isna", "astype", "to_returns", "to_log_returns", "abs", "tolist", "keys", "items", "values_", "sort_index",
        "reindex", "droplevel", "to_frame", "squeeze", "unstack", "stack", "rename", "div", "mul", "sub", "add", "iterrows", "iteritems", "get_level_values"}
# aggregations are fine on WINDOWED / ROW objects, never on FULL
AGG = {"count", "sum", "mean", "std", "var", "cov", "corr", "max", "min", "calc_total_return", "calc_perf_stats", "cumsum", "cumprod", "diff", "pct_change", "rolling", "expanding",
       "shift", "idxmax", "idxmin", "sort_values", "rank", "tail", "head", "last", "first", "ffill", "bfill", "any", "all", "median", "quantile", "describe", "resample", "nlargest",
       "nsmallest", "searchsorted", "get_indexer", "asof", "truncate", "first_valid_index", "last_valid_index", "interpolate", "ewm", "iat", "at", "take", "xs"}

KEYED_EXCEPTIONS = {
    "close_dates": "indexed by security name, per the ClosePositionsAfterDates docstring",
    "roll_data": "indexed by security name, per the RollPositionsAfterDates docstring",
}


class Finding(object):
    def __init__(self, key, msg, value, ev):
        self.key = key
        self.msg = msg
        self.value = value
        self.ev = ev


class Extent(object):
    def __init__(self, summary, full_attrs=(), anchor=("param", "target"), keyed_attrs=(), windowed_fields=("_funiverse",)):
        self.S = summary
        self.anchor = anchor
        self.full_attrs = set(full_attrs)
        self.keyed_attrs = set(keyed_attrs)
        self.windowed_fields = set(windowed_fields)
        self.findings = []
        self.sites = []
        self.memo = {}
        self.cur_ev = None
        # results of get_data calls
        self.get_data = {}
        for e in summary.events:
            if e.kind == "call" and e.name == "get_data" and e.result is not None:
                key = e.args[0] if e.args else None
                kind = FULL
                if key is not None:
                    if key[0] == "fld" and key[2] in KEYED_EXCEPTIONS:
                        kind = KEYED
                    if key[0] == "fld" and key[2] in self.keyed_attrs:
                        kind = KEYED
                self.get_data[e.result] = kind

    # ---- time expressions ----------------------------------------------------------------------------
    def is_now(self, t):
        return t[0] == "fld" and t[2] == "now" and (t[1] == self.anchor or (t[1][0] == "fld" and t[1][2] in ("root", "parent")) or t[1] == SELF)

    def tclass(self, t):
        if self.is_now(t):
            return "NOW"
        if t[0] == "-" and self.tclass(t[1]) in ("NOW", "NOW_MINUS") and not self._mentions_now(t[2]):
            return "NOW_MINUS"
        if t[0] == "+":
            if self._mentions_now(t):
                return "AFTER"
        if t[0] == "call" and t[1] in ("pd.Timestamp", "pd.to_datetime") and t[2]:
            return self.tclass(t[2][0])
        if t[0] == "sub" and t[1][0] == "attr" and t[1][2] == "index":
            # an element of an index: before now when the position is POS - k
            i = t[2]
            if i[0] == "-" and self.ext(i[1]) == POS and sym.is_num(i[2]) and i[2][1] > 0:
                return "BEFORE"
            if self.ext(i) == POS:
                return "NOW"
            return "UNKNOWN"
        if t[0] == "ite":
            a, b = self.tclass(t[2]), self.tclass(t[3])
            order = ["BEFORE", "NOW_MINUS", "NOW", "UNKNOWN", "AFTER"]
            if a == "UNKNOWN" and t[2][0] == "func":
                a = "BEFORE"  # pd.Timestamp.min
            return max(a, b, key=order.index)
        if t[0] == "func" and t[1].endswith(".min"):
            return "BEFORE"
        if t == sym.NONE:
            return "NONE"
        return "UNKNOWN"

    def _mentions_now(self, t):
        return sym.contains(t, lambda n: self.is_now(n))

    def bounded(self, t):
        return self.tclass(t) in ("NOW", "NOW_MINUS", "BEFORE")

    # ---- extents ---------------------------------------------------------------------------------------
    def ext(self, v):
        k = id(v)
        hit = self.memo.get(k)
        if hit is not None and hit[0] is v:
            return hit[1]
        r = self._ext(v)
        self.memo[k] = (v, r)
        return r

    def flag(self, key, msg, v):
        self.findings.append(Finding(key, msg, v, self.cur_ev))

    def _ext(self, v):
        if not isinstance(v, tuple) or not v:
            return OTHER
        t = v[0]
        if t == "res":
            return self.get_data.get(v, OTHER)
        if t == "fld":
            if v[2] in self.windowed_fields:
                return WINDOWED
            if v[1] == SELF and v[2] in self.full_attrs:
                return FULL
            if v[1] == SELF and v[2] in self.keyed_attrs:
                return KEYED
            if v[2] == "data" and v[1] == self.anchor:
                return FULL
            if v[2] in ("_universe", "_original_data", "_prices", "_bidoffers", "_coupons", "_cost_long", "_cost_short"):
                return FULL
            return OTHER
        if t == "prop":
            if v[2] == "universe":
                return WINDOWED
            return OTHER
        if t == "hist":
            return WINDOWED
        if t == "ite":
            a, b = self.ext(v[2]), self.ext(v[3])
            if FULL in (a, b):
                return FULL
            return a if a != OTHER else b
        if t == "attr":
            base = self.ext(v[1])
            if base in (FULL, WINDOWED, ROW, KEYED):
                if v[2] in ("index", "columns", "shape", "name", "names", "dtype", "dtypes", "empty", "size"):
                    return INDEX
                if v[2] in ("loc", "iloc", "values", "at", "iat", "T"):
                    return ("ACC", v[2], base)
                if base == FULL:
                    self.flag("full-attr:%s" % v[2], "attribute .%s of a time-indexed object that may hold rows after now" % v[2], v)
                return base
            return OTHER
        if t == "sub":
            b = self.ext(v[1])
            idx = v[2]
            if isinstance(b, tuple) and b[0] == "ACC":
                acc, base = b[1], b[2]
                self.sites.append((self.cur_ev, v, acc, base))
                if base in (WINDOWED, ROW, KEYED):
                    return ROW if base != KEYED else KEYED
                # base FULL
                if acc == "loc":
                    return self._loc(v, idx)
                if acc in ("values", "iloc"):
                    if self.ext(idx) == POS and self._same_index(idx, v[1][1]):
                        return ROW
                    self.flag("positional-read", "positional read of a time-indexed object at a position that is not the location of now in the same index", v)
                    return ROW
                self.flag("full-%s" % acc, ".%s[...] on a time-indexed object that may hold rows after now" % acc, v)
                return ROW
            if b == FULL:
                # column selection keeps FULL; a boolean mask with a `<= now` conjunct windows it
                if self._mask_bounded(idx):
                    return WINDOWED
                if self._is_mask(idx):
                    self.flag("unbounded-mask", "boolean selection on a time-indexed object without an upper bound `<= now`", v)
                    return WINDOWED
                return FULL
            if b in (WINDOWED, ROW, KEYED):
                return b
            if b == INDEX:
                return INDEX
            return OTHER
        if t == "mcall":
            b = self.ext(v[1])
            m = v[2]
            if b == FULL:
                if m in KEEP:
                    return FULL
                if m == "get_loc" :
                    return OTHER
                self.flag("full-method:%s" % m, "method .%s() on a time-indexed object that may hold rows after now" % m, v)
                return OTHER
            if b == INDEX:
                if m == "get_loc" and len(v[3]) == 1 and self.tclass(v[3][0]) in ("NOW", "NOW_MINUS"):  # the position of now, or of a date before it
                    return POS
                if m in ("get_level_values",):
                    return INDEX
                return OTHER
            if b in (WINDOWED, ROW, KEYED):
                if m in KEEP:
                    return b
                return OTHER if m in AGG else b
            for a in v[3]:
                self._arg(a, "%s()" % m, v)
            return OTHER
        if t in ("call", "fcall", "new"):
            args = v[2] if t != "fcall" else v[3]
            for a in args:
                self._arg(a, v[1] if t != "fcall" else v[2], v)
            kws = v[3] if t != "fcall" else v[4]
            for _, a in kws:
                self._arg(a, v[1] if t != "fcall" else v[2], v)
            return OTHER
        if t == "comp" and len(v) == 5:
            # a comprehension is as wide as what it yields; its iterable is visited for its own accesses only
            if isinstance(v[3], tuple):
                self.ext(v[3])
            return self.ext(v[2]) if isinstance(v[2], tuple) else OTHER
        if (t == "item" and len(v) == 3 and isinstance(v[1], tuple) and v[1][:1] == ("elem",) and isinstance(v[1][1], tuple) and v[1][1][:1] == ("comp",)
                and isinstance(v[1][1][2], tuple) and v[1][1][2][:1] == ("tuple",) and isinstance(v[2], int) and 0 <= v[2] < len(v[1][1][2]) - 1):
            # one component of the tuples a comprehension builds: classified on its own (a list of (row position, frame) pairs is not a frame)
            return self.ext(v[1][1][2][1 + v[2]])
        if t in ("+", "-", "*", "/", "neg", "**", "cmp", "and", "or", "not", "&", "|", "invert", "tuple", "list", "dict", "set", "comp", "item", "starred"):
            worst = OTHER
            for x in v[1:]:
                if isinstance(x, tuple):
                    e = self.ext(x)
                    if e == FULL:
                        if t in ("cmp",) and False:
                            pass
                        worst = FULL
            return worst
        return OTHER

    def _arg(self, a, fname, whole):
        e = self.ext(a)
        if e == FULL:
            if fname in ("isinstance", "len", "print", "type", "id"):
                return
            self.flag("full-escapes:%s" % fname, "a time-indexed object that may hold rows after now is handed whole to %s" % fname, whole)

    def _loc(self, v, idx):
        """`.loc[...]` on a FULL object."""
        row = idx
        if idx[0] == "tuple" and len(idx) >= 2:
            row = idx[1]
        if row[0] == "slice":
            lo, hi = row[1], row[2]
            if hi == sym.NONE:
                self.flag("open-window", ".loc[a:] on a time-indexed object: no upper bound", v)
                return WINDOWED
            if not self.bounded(hi):
                self.flag("window-upper:%s" % self.tclass(hi), ".loc[a:b] whose upper bound is not now / now - lag", v)
            return WINDOWED
        if self.bounded(row):
            return ROW
        # label lists (e.g. loc[sec_names]) on KEYED handled elsewhere; here: unknown row label on FULL
        self.flag("row-label:%s" % self.tclass(row), ".loc[t] with t not now / now - lag on a time-indexed object", v)
        return ROW

    def _is_mask(self, idx):
        return sym.contains(idx, lambda n: n[0] == "cmp") or idx[0] in ("&", "|", "invert")

    def _mask_bounded(self, idx):
        """the mask is a conjunction one conjunct of which is `ts <= NOW` (or `<`)"""
        conj = []
        stack = [idx]
        while stack:
            x = stack.pop()
            if x[0] == "&" or x[0] == "and":
                stack.extend(x[1:])
            else:
                conj.append(x)
        for c in conj:
            if c[0] == "cmp" and len(c) == 4:
                op, a, b = c[1], c[2], c[3]
                if op in ("<=", "<") and self.bounded(b) and self.ext(a) in (INDEX, OTHER):
                    return True
                if op in (">=", ">") and self.bounded(a) and self.ext(b) in (INDEX, OTHER):
                    return True
        return False

    def _same_index(self, pos, frame):
        """POS was computed from an index of the same underlying object as `frame` (modulo column / key selection)."""
        def root(x):
            while isinstance(x, tuple) and x and x[0] in ("sub", "mcall", "attr", "item"):
                if x[0] == "mcall" and x[2] not in ("get", "copy", "dropna"):
                    break
                if x[0] == "item":
                    # a component of the tuples a comprehension builds: follow that component
                    b = x[1]
                    if (isinstance(b, tuple) and b[:1] == ("elem",) and isinstance(b[1], tuple) and b[1][:1] == ("comp",) and isinstance(b[1][2], tuple) and b[1][2][:1] == ("tuple",)
                            and isinstance(x[2], int) and 0 <= x[2] < len(b[1][2]) - 1):
                        x = b[1][2][1 + x[2]]
                        continue
                    break
                x = x[1]
            return x
        src = None
        pos = root(pos) if isinstance(pos, tuple) and pos[:1] == ("item",) else pos
        for n in sym.walk(pos):
            if n[0] == "mcall" and n[2] == "get_loc":
                src = n[1]
        if src is None:
            return True
        if src[0] == "attr" and src[2] == "index":
            return canon(root(src[1])) == canon(root(frame)) or self._param_bound(src[1], frame)
        return True

    def _param_bound(self, a, b):
        return a[0] == "param" and b[0] in ("sub",) and b[1] == a

    # ---- driver ------------------------------------------------------------------------------------------
    def run(self):
        for e in self.S.events:
            self.cur_ev = e
            vals = []
            if e.kind == "call" and getattr(e, "inlined", False):
                pass  # a helper analysed in place: what matters is what its body does with the arguments
            elif e.kind == "call":
                vals.extend(e.args or [])
                vals.extend((e.kwargs or {}).values())
                if e.recv is not None:
                    vals.append(e.recv)
            elif e.kind == "write":
                vals.append(e.value)
            elif e.kind == "store":
                vals.extend([e.base, e.index, e.value])
            elif e.kind == "return":
                if tuple(e.chain) == (self.S.fn.qual,):
                    vals.append(e.value)  # (the return of an inlined helper is judged where the caller uses the value)
            for c, _ in (e.graw or ()):
                vals.append(c)
            for l_ in (e.loops or ()):
                it_ = getattr(l_, "iter", None)
                if isinstance(it_, tuple) and it_ and it_[0] != "while":
                    vals.append(it_)  # what a loop ranges over decides which rows its body ever sees
            for v in vals:
                if isinstance(v, tuple):
                    x = self.ext(v)
                    if x == FULL and e.kind in ("write", "store", "return") and v is (e.value if e.kind != "store" else e.value):
                        if e.kind == "write" and e.obj == SELF:
                            continue
                        if e.kind == "return" and tuple(e.chain) != (self.S.fn.qual,):
                            continue  # the return of an inlined helper: what matters is what the caller does with the value
                        self.flag("full-stored", "a time-indexed object that may hold rows after now is stored / returned whole", v)
        return self.findings
