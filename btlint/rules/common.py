"""Helpers shared by the rule sets: roles (E1b), state look-ups, history-write recognition, ordering."""

import ast

from .. import sym
from ..evalfn import SELF, property_backing
from ..source import AnalysisError
from ..sym import canon

CORE = "bt/core.py"
ALGOS = "bt/algos.py"
BACKTEST = "bt/backtest.py"


def fld(obj, name, ver=0):
    return ("fld", obj, name, ver)


# ---- roles discovered from the public API ------------------------------------------------------------
def backing_field(prog, cls, accessor):
    fi = prog.resolve(cls, accessor)
    if fi is None or not fi.is_property:
        raise AnalysisError("public accessor %s.%s is missing" % (cls, accessor))
    b = property_backing(fi)
    if b[0] != "field":
        raise AnalysisError("accessor %s.%s no longer hands out a cached field" % (cls, accessor))
    return b[1]


def backing_series(prog, cls, accessor, strict=True):
    fi = prog.resolve(cls, accessor)
    if fi is None or not fi.is_property:
        raise AnalysisError("public accessor %s.%s is missing" % (cls, accessor))
    b = property_backing(fi)
    if b[0] == "series":
        return b[1]
    # the series may be returned unsliced (a C08 matter, not a naming matter): find self._X in a return
    for n in ast.walk(fi.node):
        if isinstance(n, ast.Return) and n.value is not None:
            for a in ast.walk(n.value):
                if isinstance(a, ast.Attribute) and isinstance(a.value, ast.Name) and a.value.id == "self" and a.attr.startswith("_"):
                    return a.attr
    if strict:
        raise AnalysisError("accessor %s.%s no longer hands out a history series" % (cls, accessor))
    return None


class Roles(object):
    """Private names bound through the public accessors."""

    def __init__(self, prog):
        p = prog
        self.VALUE = backing_field(p, "Node", "value")
        self.NOTIONAL = backing_field(p, "Node", "notional_value")
        self.WEIGHT = backing_field(p, "Node", "weight")
        self.PRICE = backing_field(p, "StrategyBase", "price")
        self.SPRICE = backing_field(p, "SecurityBase", "price")
        self.CAPITAL = backing_field(p, "StrategyBase", "capital")
        self.POSITION = backing_field(p, "SecurityBase", "position")
        self.VALUES = backing_series(p, "StrategyBase", "values")
        self.NOTIONALS = backing_series(p, "StrategyBase", "notional_values")
        self.PRICES = backing_series(p, "StrategyBase", "prices")
        self.CASH = backing_series(p, "StrategyBase", "cash")
        self.FEES = backing_series(p, "StrategyBase", "fees")
        self.FLOWS_ROWS = backing_series(p, "StrategyBase", "flows")
        self.POSITIONS = backing_series(p, "SecurityBase", "positions")
        self.OUTLAYS = backing_series(p, "SecurityBase", "outlays")
        self.SVALUES = backing_series(p, "SecurityBase", "values")
        self.SNOTIONALS = backing_series(p, "SecurityBase", "notional_values")
        self.SPRICES = backing_series(p, "SecurityBase", "prices")
        self.BIDOFFER = backing_field(p, "SecurityBase", "bidoffer")
        self.BIDOFFERS = backing_series(p, "SecurityBase", "bidoffers", strict=False) or "_bidoffers"
        self.BIDOFFERS_PAID = backing_series(p, "SecurityBase", "bidoffers_paid", strict=False) or "_bidoffers_paid"
        self.COUPON = backing_field(p, "CouponPayingSecurity", "coupon")
        self.HOLDING_COST = backing_field(p, "CouponPayingSecurity", "holding_cost")
        self.COUPONS = backing_series(p, "CouponPayingSecurity", "coupons")
        self.HOLDING_COSTS = backing_series(p, "CouponPayingSecurity", "holding_costs")
        # bidoffer_paid accessor is conditional (raises when accounting is off): find the returned field
        self.BIDOFFER_PAID = _returned_self_attr(p, "SecurityBase", "bidoffer_paid")
        # FLOWS / FEE: what `adjust` increments under its flow parameter / by its fee parameter
        self.NET_FLOWS, self.LAST_FEE = _adjust_roles(p)
        # STALE: root attribute tested by the value accessor; NEEDUPDATE: tested by SecurityBase.price
        self.STALE = _tested_attr(p, "Node", "value", via="root")
        self.NEEDUPDATE = _tested_attr(p, "SecurityBase", "price", via=None)


def _returned_self_attr(prog, cls, accessor):
    fi = prog.resolve(cls, accessor)
    if fi is None:
        raise AnalysisError("public accessor %s.%s is missing" % (cls, accessor))
    for n in ast.walk(fi.node):
        if isinstance(n, ast.Return) and isinstance(n.value, ast.Attribute) and isinstance(n.value.value, ast.Name) and n.value.value.id == "self":
            return n.value.attr
    raise AnalysisError("accessor %s.%s does not return a field" % (cls, accessor))


def _adjust_roles(prog):
    fi = prog.resolve("StrategyBase", "adjust")
    if fi is None:
        raise AnalysisError("StrategyBase.adjust is missing")
    if "flow" not in fi.params or "fee" not in fi.params or "amount" not in fi.params:
        raise AnalysisError("StrategyBase.adjust lost one of its parameters amount/flow/fee")
    flows = fee = None
    for n in ast.walk(fi.node):
        if isinstance(n, ast.AugAssign) and isinstance(n.op, ast.Add) and isinstance(n.target, ast.Attribute):
            if isinstance(n.value, ast.Name) and n.value.id == "fee":
                fee = n.target.attr
    for n in ast.walk(fi.node):
        if isinstance(n, ast.If) and any(isinstance(x, ast.Name) and x.id == "flow" for x in ast.walk(n.test)):
            for m in ast.walk(n):
                if isinstance(m, ast.AugAssign) and isinstance(m.target, ast.Attribute):
                    flows = m.target.attr
    return flows or "_net_flows", fee or "_last_fee"


def _tested_attr(prog, cls, accessor, via):
    fi = prog.resolve(cls, accessor)
    if fi is None:
        raise AnalysisError("public accessor %s.%s is missing" % (cls, accessor))
    for n in ast.walk(fi.node):
        if isinstance(n, ast.If):
            for a in ast.walk(n.test):
                if isinstance(a, ast.Attribute):
                    if via is None and isinstance(a.value, ast.Name) and a.value.id == "self" and a.attr not in ("now", "parent", "root"):
                        return a.attr
                    if via is not None and isinstance(a.value, ast.Attribute) and a.value.attr == via:
                        return a.attr
    return {"root": "stale", None: "_needupdate"}[via]


# ---- state look-ups ------------------------------------------------------------------------------------
def cur(ev, obj, field, group="S"):
    """Value of obj.field in the state an event was emitted in."""
    key = (canon(obj), field)
    if key in ev.heap:
        return ev.heap[key]
    ep, ep_all = ev.epoch
    return ("fld", obj, field, ep.get((group, field), ep_all))


def final_value(st, obj, field, group="S"):
    key = (canon(obj), field)
    if key in st.heap:
        return st.heap[key]
    return ("fld", obj, field, st.version(field, group))


def is_entry(v, obj, field):
    return v[0] == "fld" and v[2] == field and canon(v[1]) == canon(obj) and v[3] == 0


# ---- history writes -----------------------------------------------------------------------------------
def hist_store(ev):
    """If a store event writes a row of a history series in place, return (series value, index, value, aug)."""
    if ev.kind != "store":
        return None
    b = ev.base
    if b[0] == "attr" and b[2] == "values":
        return (b[1], ev.index, ev.value, ev.aug)
    if b[0] == "mcall" and b[2] in ("to_numpy",):
        return (b[1], ev.index, ev.value, ev.aug)
    return None


def hist_fill(ev):
    """`series.values.fill(c)` style whole-series in-place writes."""
    if ev.kind == "call" and ev.extra == "mutate" and ev.name == "fill" and ev.recv is not None and ev.recv[0] == "attr" and ev.recv[2] == "values":
        return (ev.recv[1], ev.args[0] if ev.args else None)
    return None


def series_name(s):
    """'_values' for the value `self._values` (any version)."""
    if s[0] == "fld":
        return s[2]
    return None


# ---- guards ---------------------------------------------------------------------------------------------
def GX(x, lits_, raws):
    """G(x) extended by a split case given both as literals and as raw conditions (restricted deeply)."""
    g = G(x, extra=lits_)
    for _ in range(3):
        add = []
        for c, pol in raws:
            try:
                c2 = sym.restrict(c, g)
                for l in sym.literals(c2, pol):
                    if l not in g:
                        add.append(l)
            except Exception:
                pass
        if not add:
            break
        g = sym.sat(tuple(g) + tuple(add))
    return g


def G(x, extra=()):
    """Saturated canonical literal set of an event / state, with the gated phi nodes *inside* its
    conditions resolved against the other literals (so `is_zero(val)` tested inside `if self.children:`
    is a statement about the children branch of `val`)."""
    guard = tuple(x.guard) + tuple(extra)
    g = sym.sat(guard)
    raw = getattr(x, "graw", None) or ()
    for _ in range(2):
        add = []
        for c, pol in raw:
            try:
                c2 = sym.restrict(c, g)
                for l in sym.literals(c2, pol):
                    if l not in g:
                        add.append(l)
            except Exception:
                pass
        if not add:
            break
        g = sym.sat(tuple(g) + tuple(add))
    return g


def R_(v, g):
    """value restricted to a literal set"""
    return sym.restrict(v, g)


# ---- ordering on the structured event list ------------------------------------------------------------------
def lits(g):
    return set((canon(a), p) for a, p in g)


def is_impl(l):
    a = l[0]
    return isinstance(a, tuple) and a and a[0] == "impl"


def plain(g):
    """The branch conditions of a guard (without the implications recorded at merges)."""
    return [l for l in g if not is_impl(l)]


def guard_subset(g1, g2):
    """Every branch condition of g1 is entailed by g2."""
    s2 = sym.sat(g2)
    for a, p in g1:
        if is_impl((a, p)):
            continue
        if not sym.lit_holds(s2, a, p):
            return False
    return True


def loops_prefix(l1, l2):
    return len(l1) <= len(l2) and all(a is b for a, b in zip(l1, l2))


def dominates(a, b):
    """Event a is executed on every path that reaches event b (structured approximation)."""
    return a.seq < b.seq and guard_subset(a.guard, b.guard) and loops_prefix(a.loops, b.loops)


def postdominates(b, a, abnormal=()):
    """Event b is executed after a on every normal path through a: b's guard adds nothing to a's guard."""
    return b.seq > a.seq and guard_subset(b.guard, a.guard) and loops_prefix(b.loops, a.loops)


def has_lit(g, atom, pol=True):
    return sym.lit_holds(lits(g), atom, pol)


def atoms_mentioning(g, pred):
    out = []
    for a, p in g:
        if sym.contains(a, pred):
            out.append((a, p))
    return out


def mentions_field(v, name, obj=None):
    def pred(n):
        return n[0] == "fld" and n[2] == name and (obj is None or canon(n[1]) == canon(obj))

    return sym.contains(v, pred)


def mentions_param(v, name):
    return sym.contains(v, lambda n: n == ("param", name))


def increment_of(w):
    """value - old of a write event as a rational normal form (None if not arithmetic): `x += y` and `x = x + y` give y."""
    try:
        old = w.old if w.old is not None else ("fld", w.obj, w.field, 0)
        return sym.to_rat(("-", w.value, old))
    except Exception:
        return None


def increments_by(w, amount):
    d = increment_of(w)
    if d is None:
        return False
    try:
        return d.equals(sym.to_rat(amount))
    except Exception:
        return False


def store_increment(e):
    """For an in-place store `row[i] += x` or `row[i] = row[i] + x`: x (else None)."""
    if e.kind != "store":
        return None
    if e.aug == "+":
        return e.value
    if e.aug is None:
        try:
            d = sym.to_rat(("-", e.value, ("sub", e.base, e.index)))
        except Exception:
            return None
        if any(canon(a) == canon(("sub", e.base, e.index)) for a in d.atoms()):
            return None
        if sym.contains(e.value, lambda n: n[0] == "sub" and canon(n) == canon(("sub", e.base, e.index))):
            return ("rat",) + d.canon()[1:]
    return None


def loop_conditions(e):
    """Conditions under which an event inside a loop body runs, relative to the loop's entry: comprehension filters and inner `if`s alike."""
    if not e.loops:
        return []
    loop = e.loops[-1]
    entry = set((canon(a), p) for a, p in plain(loop.guard0)) - set((canon(a), p) for a, p in loop.filter)
    return [(a, p) for a, p in plain(e.guard) if (canon(a), p) not in entry]


def where(ev):
    return ev.where


def short(v, n=160):
    s = sym.fmt(v)
    return s if len(s) <= n else s[: n - 3] + "..."


def truth_equiv(literals, formula, atoms):
    """Is the conjunction `literals` equivalent to `formula`, judged on every assignment of `atoms`?
    Decided by enumeration (no shape matching): both sides must be decided by each assignment."""
    import itertools

    atoms = [canon(a) for a in atoms]
    for bits in itertools.product((True, False), repeat=len(atoms)):
        g = sym.sat(tuple(zip(atoms, bits)))
        if sym.inconsistent(g):
            continue
        lhs = True
        for a, p in literals:
            if sym.lit_holds(g, a, p):
                continue
            if sym.lit_holds(g, a, not p):
                lhs = False
                break
            return False
        if sym.lit_holds(g, formula, True):
            rhs = True
        elif sym.lit_holds(g, formula, False):
            rhs = False
        else:
            return False
        if lhs != rhs:
            return False
    return True


def _is_private(name):
    return name.startswith("_") and not (name.startswith("__") and name.endswith("__"))


def callers_of(prog, f):
    """Functions of the program whose body calls `f` (by attribute name for methods, by name for module functions)."""
    cache = getattr(prog, "_btlint_callers", None)
    if cache is None:
        cache = {}
        for g in prog.all_functions():
            for n in ast.walk(g.node):
                if isinstance(n, ast.Call):
                    if isinstance(n.func, ast.Attribute):
                        cache.setdefault(("attr", n.func.attr), []).append(g)
                    elif isinstance(n.func, ast.Name):
                        cache.setdefault(("name", n.func.id), []).append(g)
        try:
            prog._btlint_callers = cache
        except Exception:
            pass
    out = []
    for g in cache.get(("attr" if f.cls else "name", f.name), []) + (cache.get(("name", f.name), []) if f.cls else []):
        if g is not f and g not in out:
            out.append(g)
    return out


def working_for(prog, f, _seen=None):
    """The functions a private helper works for: a helper extracted from a function inherits that function's role in
    every who-may-do-this table.  Returns the list of non-private (or table-listed, see `stop`) functions reached by
    walking up the callers of a private helper; [f] itself for a non-private function; [] when nobody calls it."""
    if not _is_private(f.name):
        return [f]
    _seen = _seen or set()
    if id(f) in _seen:
        return []
    _seen.add(id(f))
    out = []
    for g in callers_of(prog, f):
        for h in working_for(prog, g, _seen):
            if h not in out:
                out.append(h)
    return out


def own_event(ev, fn_qual):
    """Is the event part of the function's own body - written in it or in a private helper it was split into (inlined)?
    Events of other public methods it calls (flatten, a child's update, ...) are not."""
    ch = tuple(ev.chain)
    if not ch or ch[0] != fn_qual:
        return False
    for q in ch[1:]:
        name = q.split(".")[-1]
        if not _is_private(name):
            return False
    return True


def over_all_children(it, owner):
    """Does iterable value `it` range over every child of `owner` (the list shortcut or any iteration of the children dict's values)?"""
    c = canon(it)
    if c == canon(("fld", owner, "_childrenv", 0)):
        return True
    return c == ("dictiter", canon(("fld", owner, "children", 0)))


def child_receiver(recv, owner):
    """'all' when the receiver ranges over every child of `owner`, 'strats' when it ranges over its registered strategy children
    (self.children[name] for name in self._strat_children - kept by _add_children, checked there), else None."""
    if not isinstance(recv, tuple) or not recv:
        return None
    if recv[0] == "elem":
        it = recv[1]
        if over_all_children(it, owner) or (it[0] == "fld" and it[2] == "_childrenv") or (it[0] == "mcall" and it[2] == "values") or (it[0] == "call" and it[1] == "list"):
            return "all"
        return None
    if recv[0] == "sub" and canon(recv[1]) == canon(("fld", owner, "children", 0)):
        k = recv[2]
        if isinstance(k, tuple) and k and k[0] == "elem" and canon(k[1]) == canon(("fld", owner, "_strat_children", 0)):
            return "strats"
    return None


def selects_strategies(a, p):
    """the literal (a, p) picks the strategy nodes among tree nodes: isinstance(x, StrategyBase), or - a tree node being a strategy or a security - not isinstance(x, SecurityBase)
    (which is also what `not x._issec` normalises to)"""
    if not (isinstance(a, tuple) and len(a) == 4 and a[0] == "call" and a[1] == "isinstance" and len(a[2]) == 2):
        return False
    return (bool(p) and a[2][1] == ("class", "StrategyBase")) or ((not p) and a[2][1] == ("class", "SecurityBase"))
