"""C05 - allocating cash to a security respects the budget (DESIGN 5/C05): structure of SecurityBase.allocate."""
from .. import sym
from ..evalfn import SELF
from ..sym import canon
from . import core_rules
from .common import own_event, CORE, G, Roles, cur, fld, guard_subset, has_lit, plain, short
from .core_rules import bound_args, equal

Q0_REF = '''
def ref(self, amount):
    self.update(self.parent.now)
    if is_zero(amount + self._value):
        q = -self._position
    else:
        q = amount / (self._price * self.multiplier)
        if self.integer_positions:
            if (self._position > 0) or (is_zero(self._position) and (amount > 0)):
                q = math.floor(q)
            else:
                q = math.ceil(q)
    return q
'''

NOINLINE = ("outlay", "transact", "update", "commission")


def settings_reach_every_node(chk, pid="C05"):
    """whole-unit vs fractional sizing is decided by a flag that must reach every security of the tree"""
    from . import tree_rules
    core_rules.recursion_rules(chk, pid, [("Node", "use_integer_positions", "integer_positions", False)])
    tree_rules.settings_pushed_at_construction(chk, pid)
    tree_rules.add_children_rules(chk, "C05")  # a node attached later (lazily created children included) takes the mode of the node it is attached to
    tree_rules.lazy_child_rules(chk, pid)


def loop_step(chk):
    """the step of the budget search: the shortfall is converted into units at the cash value of ONE unit (price x multiplier)"""
    R = Roles(chk.prog)
    fi = chk.prog.func(CORE, "SecurityBase", "allocate")
    S = chk.summary(CORE, "SecurityBase", "allocate", host="SecurityBase", no_inline=NOINLINE)
    host = "SecurityBase.allocate"
    amount = ("param", "amount")
    tr = [e for e in S.calls("transact") if e.recv == SELF]
    chk.need(tr and S.while_loops, "%s no longer sizes the trade in a loop and trades through self.transact" % host)
    loop = S.while_loops[0]
    a0 = tr[-1].args[0] if tr[-1].args else None
    wl = [n for n in sym.walk(a0) if n[0] == "wlout"] if a0 is not None else []
    chk.need(bool(wl), "%s: the traded quantity is not the sizing loop's result" % host)
    qname = wl[0][1]
    q_new = loop.body_state.locals.get(qname)
    fo_name = None
    for a, p in sym.literals(loop.test, True):
        if a[0] == "call" and a[1] in ("np.isclose", "math.isclose") and a[2] and a[2][0][0] == "wl":
            fo_name = a[2][0][1]
    if q_new is None or fo_name is None:
        chk.ob("C05.R5", False, CORE, host, "loop-step", "the budget search steps the quantity by the shortfall in units", where=fi.where, found="no carried quantity / cost in the loop")
        return
    qw, fw = ("wl", qname, loop.lid), ("wl", fo_name, loop.lid)
    step = ("-", qw, ("/", ("-", fw, amount), ("*", fld(SELF, R.SPRICE), fld(SELF, "multiplier"))))
    vf = sym.restrict(q_new, sym.sat([(fld(SELF, "integer_positions"), False)]))
    # another carried name that holds the shortfall (cost - amount) before the loop and at the end of every pass stands for it
    body_l, fo_pre, fo_new = loop.body_state.locals, loop.pre.get(fo_name), loop.body_state.locals.get(fo_name)
    for x_, pre_ in list(loop.pre.items()):
        if x_ in (qname, fo_name) or fo_pre is None or fo_new is None or x_ not in body_l:
            continue
        try:
            if sym.equal(pre_, ("-", fo_pre, amount)) and sym.equal(body_l[x_], ("-", fo_new, amount)):
                vf = sym.substitute(vf, {("wl", x_, loop.lid): ("-", fw, amount)})
        except Exception:
            pass
    ok = sym.equal(core_rules._strip_all_versions(vf), core_rules._strip_all_versions(step))  # the price is whatever the refresh at entry left
    chk.ob("C05.R5", ok, CORE, host, "loop-step", "each step moves the quantity by the shortfall divided by the cash value of one unit (price x multiplier): any other divisor overshoots "
           "and ends in the divergence error on well-formed input", where=fi.where, expected=short(step, 200), found=short(vf, 200), sample={"step": short(vf, 160)})


def run(chk):
    chk.explain("C05: structure of SecurityBase.allocate - zero amount is a no-op; the price and parent guards dominate sizing; the initial quantity (close-out shortcut, "
                "direction-dependent rounding) equals a reference in normal form; the sizing loop is skipped only for the close-out; its test and its break condition are the "
                "orderings the budget needs (cost of q <= amount < cost of q+1), evaluated on the cost of the current q; the traded quantity is the loop's result; outlay() is pure "
                "and is the same function that books the trade.")
    chk.assume("commission functions are non-decreasing in size and smaller than the unit price (premise of the property); np.isclose tolerance effects are not decided")
    R = Roles(chk.prog)
    fi = chk.prog.func(CORE, "SecurityBase", "allocate")
    S = chk.summary(CORE, "SecurityBase", "allocate", host="SecurityBase", no_inline=NOINLINE)
    host = "SecurityBase.allocate"
    chk.site()
    amount = ("param", "amount")
    z_amount = ("zero", sym._abs_norm(sym.to_rat(amount)))
    tr = [e for e in S.calls("transact") if e.recv == SELF]
    chk.need(tr, "%s no longer trades through self.transact" % host)
    outs = [e for e in S.calls("outlay") if e.recv == SELF]
    chk.need(outs, "%s no longer probes the cost through self.outlay" % host)
    # ---- R1 zero amount is a no-op
    for e in tr + outs:
        chk.ob("C05.R1", has_lit(e.guard, z_amount, False), CORE, host, "zero-amount-noop:%s" % e.name, "a zero amount does nothing", where=e.where, expected="return under is_zero(amount) first",
               found=sym.fmt_guard(e.guard)[:200])
    for r in S.raises:
        if not own_event(r, fi.qual):
            continue
        chk.ob("C05.R1", has_lit(r.guard, z_amount, False), CORE, host, "zero-amount-never-raises", "a zero amount does nothing - it does not even validate the price (a flat child of a "
               "strategy receives allocate(0) on every spread)", where=r.where, expected="return under is_zero(amount) before any validation", found=sym.fmt_guard(plain(r.guard))[:200])
    # ---- R2 price / parent guards dominate sizing and trading
    for e in tr + outs:
        g = G(e)
        p = cur(e, SELF, R.SPRICE)
        ok = sym.lit_holds(g, ("zero", sym._abs_norm(sym.to_rat(p))), False) and sym.lit_holds(g, ("isnan", canon(p)), False)
        chk.ob("C05.R2", ok, CORE, host, "price-guard:%s" % e.name, "a trade at a missing or zero price is refused with an error before anything is sized", where=e.where,
               expected="raise under is_zero(price) or isnan(price)", found=sym.fmt_guard(e.guard)[:240], sample={"guard": sym.fmt_guard(e.guard)[:160]})
        okp = any((not pol) and a[0] in ("is", "eq", "cmp") and core_rules.mentions_field(a, "parent", SELF) for a, pol in g)
        chk.ob("C05.R2", okp, CORE, host, "parent-guard:%s" % e.name, "a parentless security cannot be allocated to", where=e.where)
    raises_price = [e for e in S.raises if any(a[0] in ("or",) or a[0] in ("zero", "isnan") for a, p in e.guard)]
    chk.ob("C05.R2", bool(raises_price), CORE, host, "price-guard-raises", "the price guard raises", where=fi.where)
    # ---- R3/R4 initial quantity
    chk.need(S.while_loops, "%s no longer has a sizing loop" % host)
    loop = S.while_loops[0]
    # the loop-carried name that is passed to transact (role: the quantity)
    a0 = tr[-1].args[0] if tr[-1].args else None
    wl = [n for n in sym.walk(a0)] if a0 is not None else []
    wl = [n for n in wl if n[0] == "wlout"]
    chk.need(bool(wl), "%s: the traded quantity is not the sizing loop's result" % host)
    qname = wl[0][1]
    q0 = loop.pre.get(qname)
    chk.need(q0 is not None, "%s: the quantity is not initialised before the sizing loop" % host)
    ref = chk.ref(Q0_REF.replace("_price", R.SPRICE).replace("_position", R.POSITION).replace("_value", R.VALUE), "SecurityBase")
    rq = ref.exits[-1][1]
    gl = sym.sat(loop.entry_guard)
    for pol_int in (True, False):
        for pol_close in (True, False):
            gg = sym.sat([(fld(SELF, "integer_positions"), pol_int)])
            v1 = sym.restrict(q0, gg)
            v2 = sym.restrict(rq, gg)
            # compare as gated values: split on the remaining conditions of the reference
            for cg, leaf in sym.cases(v2):
                g2 = sym.sat(tuple(gg) + tuple(cg))
                a = sym.restrict(core_rules.norm_versions(v1), sym.sat([(core_rules.norm_versions(x[0]), x[1]) for x in g2]))
                b = core_rules.norm_versions(leaf)
                ok = equal(a, b)
                key = "initial-quantity:%s:%s" % ("integer" if pol_int else "fractional", short(leaf, 60))
                chk.ob("C05.R4", ok, CORE, host, key,
                       "the first guess is amount / (price x multiplier), rounded toward the position's side for whole-unit positions, and exactly minus the position when closing out",
                       where=fi.where, expected=short(b, 200), found=short(a, 200), sample={"q0": short(a, 160), "case": sym.fmt_guard(cg)[:120]})
            break
    # ---- R7 the loop is bypassed only for the close-out
    lg = [l for l in plain(loop.body_state.guard[:len(loop.guard0)]) if l not in plain(loop.entry_guard)]
    test_lits = sym.literals(loop.test, True)
    entry_extra = [l for l in plain(loop.entry_guard) if not any(canon(l[0]) == canon(e_[0]) for e_ in plain(outs[0].guard))]
    first_probe = outs[0]
    probe_extra = [l for l in plain(first_probe.guard) if l not in plain(tr[-1].guard)]
    pos = fld(SELF, R.POSITION)
    closeout = canon(("cmp", "==", q0, ("neg", pos)))
    val_now = cur(first_probe, SELF, R.VALUE)
    closeout_def = canon(("zero", sym._abs_norm(sym.to_rat(("+", amount, val_now)))))
    by_def = len(probe_extra) == 1 and canon(probe_extra[0][0]) == closeout_def and probe_extra[0][1] is False
    by_val = len(probe_extra) == 1 and canon(probe_extra[0][0]) == closeout and probe_extra[0][1] is False
    ok = by_def or by_val
    chk.ob("C05.R7", ok, CORE, host, "bypass-only-closeout", "the budget search is skipped only when the quantity is the close-out quantity", where=first_probe.where,
           expected="sizing loop skipped only under the close-out condition is_zero(amount + value)", found=sym.fmt_guard(probe_extra)[:240], sample={"bypass_condition": sym.fmt_guard(probe_extra)[:160]})
    # the bypass compares VALUES: a rounded q that happens to equal -position also skips the budget search
    defs = [leaf for _, leaf in sym.cases(sym.restrict(q0, sym.sat([(fld(SELF, "integer_positions"), True)])))]
    rounded = [d for d in defs if sym.contains(d, lambda n: n[0] == "call" and n[1] in ("math.floor", "math.ceil"))]
    by_value = by_val and bool(rounded)
    chk.ob("C05.R7", not by_value, CORE, host, "bypass-by-value-equality",
           "the close-out bypass is decided by comparing values: a quantity produced by rounding that happens to equal minus the position also skips the budget search "
           "(short 10 @100, allocate(+950): buys 10, spends 1000)", where=first_probe.where, expected="bypass reachable only from the close-out definition of q",
           found="reaching definitions of q at the bypass: close-out, floor(...), ceil(...)")
    # ---- R5/R6 loop test and break condition
    body = loop.body_state
    probes = [e for e in outs if e.loops and e.loops[-1] is loop]
    chk.ob("C05.R5", len(probes) >= 2, CORE, host, "loop-probes", "inside the loop the cost of the current quantity and of one more unit are probed", where=fi.where,
           found="%d outlay probes in the loop" % len(probes))
    q_new = body.locals.get(qname)
    cur_probe = [e for e in probes if e.args and q_new is not None and canon(e.args[0]) == canon(q_new)]
    more_probe = [e for e in probes if e.args and q_new is not None and equal(e.args[0], ("+", q_new, sym.ONE))]
    chk.ob("C05.R5", bool(cur_probe), CORE, host, "probe-current-quantity", "the cost tested is the cost of the current quantity (no stale cost)", where=fi.where,
           expected="outlay(q) after the last change of q", found="; ".join(short(e.args[0], 80) for e in probes))
    chk.ob("C05.R5", bool(more_probe), CORE, host, "probe-one-more", "maximality is tested on the cost of exactly one more unit", where=fi.where, expected="outlay(q + 1)",
           found="; ".join(short(e.args[0], 80) for e in probes))
    # the test: not isclose(full_outlay, amount) and q != 0, on the carried cost
    fo_name = None
    tl = sym.literals(loop.test, True)
    isclose_ok = any((not p) and a[0] == "call" and a[1] in ("np.isclose", "math.isclose") and canon(a[2][1]) == canon(amount) for a, p in tl)
    qnz_ok = any((not p) and a[0] == "zero" and sym.contains(a, lambda n: n == ("wl", qname, loop.lid)) for a, p in tl)
    chk.ob("C05.R6", isclose_ok and qnz_ok and len(tl) == 2, CORE, host, "loop-test", "the search continues until the cost meets the amount (or the quantity is zero)", where=fi.where,
           expected="while not isclose(full_outlay, amount) and q != 0", found=sym.fmt_guard(tl)[:200], sample={"test": sym.fmt_guard(tl)[:160]})
    if isclose_ok:
        for a, p in tl:
            if a[0] == "call" and a[1] in ("np.isclose", "math.isclose"):
                c = a[2][0]
                if c[0] == "wl":
                    fo_name = c[1]
                # how close is close: the library's own tolerance, not numpy's default of 1e-5 relative (10 cents on 10,000 spent)
                kw = dict(a[3])
                rel = kw.get("rtol" if a[1] == "np.isclose" else "rel_tol")
                absl = kw.get("atol" if a[1] == "np.isclose" else "abs_tol")
                relv = sym.to_rat(rel).const_value() if rel is not None else (None if a[1] == "np.isclose" else 1e-9)
                absv = sym.to_rat(absl).const_value() if absl is not None else (1e-8 if a[1] == "np.isclose" else 0)
                okt = relv is not None and float(relv) <= 1e-9 and absv is not None and float(absv) <= 1e-8
                chk.ob("C05.R6", okt, CORE, host, "loop-test-tolerance", "the search stops only when the cost meets the amount to within the library's (tiny) tolerance", where=fi.where,
                       expected="relative tolerance <= 1e-9 (TOL), absolute tolerance <= 1e-8", found="rtol=%s atol=%s" % (short(rel) if rel is not None else "default", short(absl) if absl is not None else "default"))
    if fo_name and cur_probe:
        fo_new = body.locals.get(fo_name)
        ok = fo_new is not None and fo_new[0] == "item" and fo_new[1] == cur_probe[-1].result and fo_new[2] == 0
        chk.ob("C05.R5", ok, CORE, host, "tested-cost-is-full-outlay-of-current-q", "the cost carried into the next test is the full outlay (element 0) of outlay(current q)", where=fi.where,
               expected="full_outlay = outlay(q)[0]", found=short(fo_new) if fo_new else "?")
    # break condition
    breaks = [ps for kind, ps in loop.pending if kind == "break"]
    chk.ob("C05.R6", len(breaks) == 1, CORE, host, "single-break", "the loop has one early exit: the largest whole quantity has been found", where=fi.where, found="%d breaks" % len(breaks))
    if breaks and cur_probe and more_probe:
        bg = [l for l in plain(breaks[0].guard) if l not in plain(loop.guard0)]
        F = ("item", cur_probe[-1].result, 0)
        F1 = ("item", more_probe[-1].result, 0)
        want = {(canon(fld(SELF, "integer_positions")), True), (canon(("cmp", "<", F, amount)), True), (canon(("cmp", ">", F1, amount)), True)}
        got = set((canon(a), p) for a, p in bg)
        ok = got == want
        chk.ob("C05.R6", ok, CORE, host, "break-condition", "the search stops early exactly when q fits the budget and q + 1 would not (largest whole quantity)", where=fi.where,
               expected="integer_positions and full_outlay(q) < amount and full_outlay(q+1) > amount", found=sym.fmt_guard(bg)[:240], sample={"break_condition": sym.fmt_guard(bg)[:200]})
    # in-loop rounding keeps whole units
    if q_new is not None:
        vi = sym.restrict(q_new, sym.sat([(fld(SELF, "integer_positions"), True)]))
        ok = vi[0] == "call" and vi[1] in ("math.floor", "math.ceil")
        chk.ob("C05.R4", ok, CORE, host, "loop-quantity-integral", "with whole-unit positions every candidate quantity is a whole number", where=fi.where, found=short(vi, 120))
    loop_step(chk)
    # ---- the traded quantity is the loop's result; update flag passed on
    t = tr[-1]
    tb = bound_args(t, chk.prog)
    qv = tb.get("q")
    ok = qv is not None and ((qv[0] == "wlout" and qv[1] == qname) or (qv[0] == "ite" and any(leaf[0] == "wlout" and leaf[1] == qname for _, leaf in sym.cases(qv))))
    chk.ob("C05.R5", ok, CORE, host, "trade-sized-quantity", "the quantity traded is the one the budget search ended on", where=t.where, found=short(qv, 120) if qv else "?")
    us = tb.get("update_self")
    # zero / NaN quantity -> nothing to do
    gq = G(t)
    okz = sym.lit_holds(gq, ("zero", sym._abs_norm(sym.to_rat(q0))), False) and sym.lit_holds(gq, ("isnan", canon(q0)), False)
    chk.ob("C05.R1", okz, CORE, host, "zero-quantity-noop", "a zero (or NaN) first guess trades nothing", where=t.where)
    # ---- R8 the probe and the booking use the same, pure cost function
    core_rules.outlay_rules(chk, "C05")
    T = chk.summary(CORE, "SecurityBase", "transact", host="SecurityBase", no_inline=NOINLINE)
    ok = any(e.recv == SELF for e in T.calls("outlay"))
    chk.ob("C05.R8", ok, CORE, "SecurityBase.transact", "booking-uses-probed-cost", "the cost booked by a trade is computed by the same outlay() the sizing probed", where=T.fn.where)
    core_rules.transact_rules(chk, "C05")
    core_rules.security_update(chk, "C05")  # the unit price the sizing works with is today's quote (a price kept from an earlier date sizes and books the trade at a stale price)
    core_rules.refresh_before_trade(chk, "C05")
    settings_reach_every_node(chk)
