"""C04 - no look-ahead (DESIGN 5/C04): exhaustive extent analysis of every access to a time-indexed object."""
import ast

from .. import sym
from ..evalfn import SELF, property_backing
from ..sym import canon
from . import backtest_rules, core_rules
from .common import working_for, ALGOS, CORE, Roles, fld, short
from .core_rules import SEC_CLASSES, is_inow
from .extent import Extent


def algo_classes(prog):
    out = []
    for c in prog.classes.values():
        if c.module == ALGOS and prog.is_subclass(c.name, "Algo"):
            out.append(c)
    return out


def full_attrs_of(S):
    """Constructor-supplied attributes that the algo indexes by time (.loc / .index / .iloc / .values)."""
    out = set()
    for e in S.events:
        vals = list(e.args or []) + list((e.kwargs or {}).values()) + [x for x in (e.value, e.base, e.index) if x is not None] + [c for c, _ in (e.graw or ())]
        for v in vals:
            for n in sym.walk(v):
                if n[0] == "attr" and n[2] in ("loc", "index", "iloc", "values"):
                    stack = [n[1]]
                    while stack:
                        b = stack.pop()
                        if b[0] == "fld" and b[1] == SELF:
                            out.add(b[2])
                        elif b[0] == "ite":
                            stack.extend([b[2], b[3]])
    return out


def algo_extent(chk, pid, only=None, rule="C04.R1"):
    n_sites = 0
    n_algos = 0
    for c in algo_classes(chk.prog):
        if "__call__" not in c.methods:
            continue
        if only is not None and c.name not in only:
            continue
        n_algos += 1
        S = chk.summary(ALGOS, c.name, "__call__", host=c.name, depth=3)
        ub = property_backing(chk.prog.func(CORE, "StrategyBase", "universe"))
        X = Extent(S, full_attrs=full_attrs_of(S), windowed_fields=(ub[1],) if ub[0] == "field" else ())
        findings = X.run()
        n_sites += len(X.sites)
        chk.site(len(X.sites))
        host = "%s.__call__" % c.name
        seen = set()
        for f in findings:
            key = f.key
            if (key, f.ev.line if f.ev else 0) in seen:
                continue
            seen.add((key, f.ev.line if f.ev else 0))
            chk.ob(rule, False, ALGOS, host, key, "nothing read at date t may depend on a data value dated after t: " + f.msg, where=f.ev.where if f.ev else ALGOS,
                   expected="a now-bounded access (.loc[now], .loc[a:now-lag], mask with <= now, values[get_loc(now)])", found=short(f.value, 200))
        ok_sites = [s for s in X.sites]
        for ev, v, acc, base in ok_sites[:50]:
            chk.ob(rule, True, ALGOS, host, "access:%s:%d" % (acc, ev.line if ev else 0), "bounded access", where=ev.where if ev else ALGOS,
                   sample={"expr": short(v, 140), "base": base, "accessor": acc} if len(chk.samples) < 8 else None)
    return n_algos, n_sites


def universe_accessor(chk, pid):
    """C04.R3: StrategyBase.universe hands out `_universe.loc[: now]` (cached per now)."""
    fi = chk.prog.func(CORE, "StrategyBase", "universe")
    S = chk.summary(CORE, "StrategyBase", "universe", host="StrategyBase")
    host = "StrategyBase.universe"
    chk.site()
    now = fld(SELF, "now")

    def is_sliced(v):
        return (v[0] == "sub" and v[1][0] == "attr" and v[1][2] == "loc" and v[1][1][0] == "fld" and v[1][1][2] == "_universe" and v[2][0] == "slice" and v[2][1] == sym.NONE
                and canon(v[2][2]) == canon(now) and v[2][3] == sym.NONE)

    cache = None
    for w in S.events:
        if w.kind == "write" and is_sliced(w.value):
            cache = w.field
    if cache is None:
        chk.ob("C04.R3", False, CORE, host, "universe-windowed", "the universe handed to algos holds only rows up to now", where=fi.where, expected="_universe.loc[: now]",
               found="; ".join(short(v, 80) for _, v in S.return_cases()))
        return
    key_field = None
    for w in S.writes(None, SELF):
        if canon(w.value) == canon(now):
            key_field = w.field
    for g, v in S.return_cases():
        gg = sym.sat(g)
        if is_sliced(v):
            ok = True
        elif v[0] == "fld" and v[2] == cache and v[3] == 0:
            ok = key_field is not None and sym.lit_holds(gg, ("cmp", "==", now, fld(SELF, key_field)), True)
        else:
            ok = False
        chk.ob("C04.R3", ok, CORE, host, "universe-windowed", "the universe handed to algos holds only rows up to now (a cached window is reused only for the same now)", where=fi.where,
               expected="_universe.loc[: now], or the cache when now == cache key", found=short(v), sample={"returns": short(v), "guard": sym.fmt_guard(g)})
    # who may write the cache / its key
    for f in chk.prog.all_functions(modules=(CORE, ALGOS, "bt/backtest.py")):
        for n in ast.walk(f.node):
            if isinstance(n, (ast.Assign, ast.AugAssign)):
                ts = n.targets if isinstance(n, ast.Assign) else [n.target]
                for t in ts:
                    for el in ast.walk(t):
                        if isinstance(el, ast.Attribute) and isinstance(el.ctx, ast.Store) and el.attr in (cache, key_field):
                            owners = (("StrategyBase", "universe"), ("StrategyBase", "setup"), ("StrategyBase", "__init__"))
                            ok = (f.cls, f.name) in owners
                            if not ok:
                                hs = working_for(chk.prog, f)  # a private helper inherits the role of the functions it works for
                                ok = bool(hs) and all((h.cls, h.name) in owners for h in hs)
                            chk.ob("C04.R3", ok, f.module, f.qual, "cache-writer:%s" % el.attr,
                                   "the windowed-universe cache may be written only by the accessor (sliced) and by setup (which invalidates its key)", where="%s:%d" % (f.module, n.lineno),
                                   found="written in %s" % f.qual)
    # setup must invalidate the key whenever it seeds the cache
    U = chk.summary(CORE, "StrategyBase", "setup", host="StrategyBase", no_inline=("setup", "adjust"))
    cw = U.writes(cache, SELF)
    kw = U.writes(key_field, SELF) if key_field else []
    if cw:
        ok = bool(kw) and canon(kw[-1].value) == canon(sym.NONE) and kw[-1].seq > cw[-1].seq or (bool(kw) and canon(kw[-1].value) == canon(sym.NONE))
        chk.ob("C04.R3", ok, CORE, "StrategyBase.setup", "cache-invalidated-at-setup", "setup seeds the cache with the whole frame and therefore invalidates the cache key", where=U.fn.where)


def core_reads(chk, pid):
    """C04.R4: securities and strategies read only the current row of the data they hold."""
    R = Roles(chk.prog)
    n = 0
    for K in SEC_CLASSES + ["StrategyBase"]:
        fi = chk.prog.resolve(K, "update")
        S = chk.summary(fi.module, fi.cls, "update", host=K)
        host = "%s.update" % K
        seen = set()
        for e in S.events:
            vals = list(e.args or []) + list((e.kwargs or {}).values()) + [x for x in (e.value,) if x is not None] + [c for c, _ in (e.graw or ())]
            for v in vals:
                for nd in sym.walk(v):
                    if nd[0] == "sub" and nd[1][0] == "attr" and nd[1][2] in ("values", "iloc", "iat") and nd[1][1][0] == "fld" and canon(nd[1][1][1]) == canon(SELF):
                        key = (nd[1][1][2], canon(nd[2]))
                        if key in seen:
                            continue
                        seen.add(key)
                        n += 1
                        chk.site()
                        ok = is_inow(nd[2])
                        chk.ob("C04.R4", ok, fi.module, host, "row-read:%s" % nd[1][1][2], "a node reads only the current row of the series it holds", where=e.where,
                               expected="%s.values[inow]" % nd[1][1][2], found=short(nd, 160), sample={"read": short(nd, 140)})
                    if nd[0] == "sub" and nd[1][0] == "attr" and nd[1][2] == "loc" and nd[1][1][0] == "fld" and canon(nd[1][1][1]) == canon(SELF) and nd[1][1][2] in (
                            "_universe", "_original_data", R.SPRICES, R.BIDOFFERS, "_coupons", "_cost_long", "_cost_short"):
                        n += 1
                        chk.ob("C04.R4", False, fi.module, host, "label-read:%s" % nd[1][1][2], "update reads input data only positionally at the current row", where=e.where,
                               found=short(nd, 160))
        # the data row handed in by the caller is used only through the security's own name
        for e in S.events:
            if e.kind == "call" and e.name == "update" and e.recv is not None and e.recv[0] == "elem" and K == "StrategyBase":
                ok = len(e.args) >= 3 and canon(e.args[0]) == canon(("param", "date")) and canon(e.args[1]) == canon(("param", "data")) and is_inow(e.args[2])
                chk.ob("C04.R4", ok, fi.module, host, "children-updated-with-same-row", "children are updated with the same (date, data, inow)", where=e.where)
    chk.floor_count("C04.R4:positional reads", n, 5)


def setup_inputs(chk, pid):
    """C04.R6: setup stores the supplied series as they are (a column selection of the argument): no shift / fill / resample that could move information across dates."""
    sites = [("SecurityBase", "setup", ("_prices", "_bidoffers")), ("CouponPayingSecurity", "setup", ("_coupons", "_cost_long", "_cost_short"))]
    n = 0
    for cls, name, fields in sites:
        S = chk.summary(CORE, cls, name, host=cls, no_inline=())
        host = "%s.%s" % (cls, name)
        for w in S.writes(None, SELF):
            if w.field not in fields:
                continue
            n += 1
            from .common import GX
            for g, leaf, raws in sym.split_cases(canon(w.value), raw=True):
                gg = GX(w, g, raws)
                if sym.inconsistent(gg):
                    continue  # e.g. the `{}` default of kwargs.get(key, {}) under "the lookup did not fail"
                leaf = sym.restrict(leaf, gg)
                ok = _plain_selection(leaf)
                chk.ob("C04.R6", ok, CORE, host, "input-stored-untransformed:%s" % w.field, "input data is stored as supplied: a column of the argument, or the node's own empty column",
                       where=w.where, expected="universe[name] / kwargs[key][name] / self.data[col] / None", found=short(leaf, 140), sample={"field": w.field, "value": short(leaf, 100)})
    chk.floor_count("C04.R6:input series stored in setup", n, 4)
    backtest_rules.additional_data_only_prepended(chk)


def _plain_selection(v):
    t = v[0]
    if t in ("none",):
        return True
    if t == "sub":
        return _plain_selection(v[1]) and v[2][0] in ("fld", "str", "param")
    if t in ("param", "fld"):
        return True
    if t == "res":
        return True
    if t == "num":
        return True  # the node's own, freshly created column
    if t == "call" and v[1] in ("pd.DataFrame", "pandas.DataFrame") and not any(isinstance(a, tuple) and a and a[0] not in ("num", "nan") for a in v[2]):
        return True  # the node's own, freshly created frame
    return False


def run(chk):
    chk.explain("C04: extent analysis (T-EXT). Every value that reaches a sink of a stock algo (arguments of node calls, stored temp values, returns, branch conditions) is "
                "classified FULL / WINDOWED / ROW / INDEX / POS; every use of a FULL object (get_data frames, constructor-supplied frames, target.data) must be a now-bounded access; "
                "positional reads must use the location of now in the same index. The universe accessor is windowed and its cache has enumerated writers; core reads input data only "
                "at the current row; history accessors of input series slice to now; the date loop feeds one date at a time in order.")
    chk.assume("pandas label slicing .loc[a:b] on a sorted DatetimeIndex returns rows with a <= label <= b")
    chk.assume("ffn / numpy / sklearn functions are pure functions of their arguments")
    chk.assume("lag and lookback parameters are non-negative; user-written algos are out of scope")
    na, ns = algo_extent(chk, "C04")
    chk.floor_count("C04.R1:algos analysed", na, 40)
    chk.floor_count("C04.R1:time-indexed access sites", ns, 12)
    universe_accessor(chk, "C04")
    core_reads(chk, "C04")
    setup_inputs(chk, "C04")
    core_rules.accessor_rules(chk, "C04")
    backtest_rules.run_loop(chk, "C04")
    # positional reads through a helper: the row of a unit-risk table is the location of now in THAT table's index
    from .algo_equiv import check_equiv
    from .c20 import REFS as RISK_REFS
    for cls, name, src, what in RISK_REFS:
        if (cls, name) in (("HedgeRisks", "__call__"), ("UpdateRisk", "_set_risk_recursive")):
            check_equiv(chk, "C20.R2" if cls == "HedgeRisks" else "C20.R1", "bt/algos.py", cls, name, src, "documented-behaviour", "%s.%s: %s" % (cls, name, what),
                        no_inline=("_set_risk_recursive", "_get_target_risk") if name != "_set_risk_recursive" else ("_set_risk_recursive",), limit=14)
    # the weight reports divide each date's row by the root's value OF THAT DATE (its history), never by a current scalar
    from .algo_equiv import check_equiv
    from .c18 import REFS as REPORT_REFS
    for mod, cls, name, src, what in REPORT_REFS:
        if (cls, name) in (("Backtest", "weights"), ("Backtest", "security_weights")):
            check_equiv(chk, "C18.R1", mod, cls, name, src, "report-formula", "%s.%s: %s" % (cls, name, what), no_inline=("update", "get_transactions"), limit=14, ignore_refresh=True)
    core_rules.security_update(chk, "C04")  # history rows are written at the current index only: a write elsewhere (or over the whole column) moves information across dates
