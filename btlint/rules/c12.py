"""C12 - calendar and counting schedulers fire exactly on their boundaries (DESIGN 5/C12)."""
from .. import sym
from ..evalfn import SELF
from ..sym import canon
from . import backtest_rules
from .algo_equiv import check_equiv
from .c13 import OR_REF
from .common import ALGOS, CORE, short

RUNPERIOD_REF = '''
def ref(self, target):
    now = target.now
    if now is None:
        return False
    if now not in target.data.index:
        return False
    index = target.data.index.get_loc(target.now)
    result = False
    if index == 0:
        return False
    if index == 1:
        if self._run_on_first_date:
            result = True
    elif index == (len(target.data.index) - 1):
        if self._run_on_last_date:
            result = True
    else:
        now = pd.Timestamp(now)
        index_offset = -1
        if self._run_on_end_of_period:
            index_offset = 1
        date_to_compare = target.data.index[index + index_offset]
        date_to_compare = pd.Timestamp(date_to_compare)
        result = self.compare_dates(now, date_to_compare)
    return result
'''

REFS = {
    "RunOnce": ("__call__", '''
def ref(self, target):
    if not self.has_run:
        self.has_run = True
        return True
    return False
''', "returns True on the first call only"),
    "RunOnDate": ("__call__", '''
def ref(self, target):
    return target.now in self.dates
''', "True exactly on the configured dates"),
    "RunAfterDate": ("__call__", '''
def ref(self, target):
    return target.now > self.date
''', "True strictly after the date"),
    "RunAfterDays": ("__call__", '''
def ref(self, target):
    if self.days > 0:
        self.days -= 1
        return False
    return True
''', "False (counting down) for the first `days` calls, then True"),
    "RunEveryNPeriods": ("__call__", '''
def ref(self, target):
    if self.lcall == target.now:
        return False
    else:
        self.lcall = target.now
        if self.idx == (self.n - 1):
            self.idx = 0
            return True
        else:
            self.idx += 1
            return False
''', "fires every n-th distinct date, first after `offset` dates; a repeated call on the same date does not step"),
}

INIT_ALT_REFS = {
    # the configured dates are only ever tested for membership (RunOnDate.__call__ is checked against `now in self.dates`): a set of the same timestamps decides the same
    "RunOnDate": ('''
def ref(self, *dates):
    self.dates = {pd.to_datetime(d) for d in dates}
''',),
}

INIT_REFS = {
    "RunEveryNPeriods": '''
def ref(self, n, offset=0):
    self.n = n
    self.offset = offset
    self.idx = n - offset - 1
    self.lcall = 0
''',
    "RunOnDate": '''
def ref(self, *dates):
    self.dates = [pd.to_datetime(d) for d in dates]
''',
    "RunAfterDate": '''
def ref(self, date):
    self.date = pd.to_datetime(date)
''',
    "RunAfterDays": '''
def ref(self, days):
    self.days = days
''',
    "RunOnce": '''
def ref(self):
    self.has_run = False
''',
}

# period keys: what each comparator must compare on BOTH arguments; the result is "any component differs"
KEYS = {
    "RunDaily": [["now.date()"]],
    "RunWeekly": [["now.isocalendar()[:2]"], ["now.isocalendar()[0]", "now.isocalendar()[1]"], ["now.isocalendar().year", "now.isocalendar().week"]],
    "RunMonthly": [["now.year", "now.month"]],
    "RunQuarterly": [["now.year", "now.quarter"]],
    "RunYearly": [["now.year"]],
}


def period_keys(chk):
    NOW, OTHER = ("param", "now"), ("param", "date_to_compare")
    for cls, alts in KEYS.items():
        fi = chk.prog.resolve(cls, "compare_dates")  # the comparator itself or one inherited and specialised through a helper of the class
        chk.need(fi is not None, "%s no longer has a comparator" % cls)
        S = chk.summary(fi.module, fi.cls, "compare_dates", host=cls)
        host = "%s.compare_dates" % cls
        chk.site()
        chk.need(len(fi.params) == 3, "%s changed its signature" % host)
        a_now, a_other = ("param", fi.params[1]), ("param", fi.params[2])
        # collect the equality atoms the result depends on
        comps = []
        comps_atoms = []
        bad = []
        rc = S.return_cases()
        for g, v in rc:
            cond_atoms = [a for a, p in g]
            if canon(v) not in (canon(sym.TRUE), canon(sym.FALSE)):
                cond_atoms.append(v)
            for a in cond_atoms:
                for at in _prims(a):
                    if at in comps_atoms:
                        continue
                    key = None
                    if at[0] == "cmp" and at[1] == "==":
                        r = sym.to_rat(at[2])
                        atoms = list(r.atoms())
                        if len(atoms) == 2 and len(r.num) == 2:
                            x, y = atoms
                            fx = sym.substitute(x, {a_other: a_now})
                            fy = sym.substitute(y, {a_other: a_now})
                            if canon(fx) == canon(fy) and (sym.contains(x, lambda n: n == a_other) != sym.contains(y, lambda n: n == a_other)):
                                key = canon(fx)
                    elif at[0] == "eq":
                        x, y = at[1], at[2]
                        fx = sym.substitute(x, {a_other: a_now})
                        fy = sym.substitute(y, {a_other: a_now})
                        if canon(fx) == canon(fy) and (sym.contains(x, lambda n: n == a_other) != sym.contains(y, lambda n: n == a_other)):
                            key = canon(fx)
                    if key is None:
                        bad.append(at)
                    else:
                        comps_atoms.append(at)
                        while isinstance(key, tuple) and len(key) == 4 and key[0] == "call" and key[1] in ("tuple", "list") and len(key[2]) == 1 and not key[3]:
                            key = key[2][0]  # tuple(k) compares like k
                        # a tuple key is equal when all its components are
                        for k_ in (key[1:] if key[0] == "tuple" else (key,)):
                            if k_ not in comps:
                                comps.append(k_)
        want = []
        for alt in alts:
            want.append(sorted([canon(chk.spec(src, now=a_now)) for src in alt], key=repr))
        ok = not bad and sorted(comps, key=repr) in want
        chk.ob("C12.R2", ok, ALGOS, host, "period-key", "%s fires when the period key of the two dates differs; the key must be a consistent calendar key compared on both dates" % cls,
               where=fi.where, expected=" or ".join("{" + ", ".join(a) + "}" for a in alts), found="{%s}%s" % (", ".join(short(c, 60) for c in comps), ("; other tests: " + "; ".join(short(b, 80) for b in bad)) if bad else ""),
               sample={"class": cls, "key": [short(c, 60) for c in comps]})
        # result: True iff some component differs (any), False otherwise - judged on every assignment of the comparisons
        import itertools
        ok = bool(comps_atoms) and not bad
        for bits in itertools.product((True, False), repeat=len(comps_atoms)):
            if not ok:
                break
            gg = sym.sat(tuple(zip(comps_atoms, bits)))
            res = None
            for g, v in rc:
                if all(sym.lit_holds(gg, a, p) for a, p in g if not (isinstance(a, tuple) and a and a[0] == "impl")):
                    cv = canon(v)
                    if cv == canon(sym.TRUE):
                        res = True
                    elif cv == canon(sym.FALSE):
                        res = False
                    elif sym.lit_holds(gg, cv, True):
                        res = True
                    elif sym.lit_holds(gg, cv, False):
                        res = False
                    break
            ok = ok and res is (not all(bits))
        chk.ob("C12.R2", ok, ALGOS, host, "period-result", "the comparator is True exactly when some component of the key differs", where=fi.where)


def _prims(a):
    a = canon(a)
    if a[0] in ("and", "or"):
        out = []
        for x in a[1:]:
            out.extend(_prims(x))
        return out
    if a[0] in ("not", "impl"):
        return _prims(a[1])
    return [a]


def _holds_eq(gg, comp, a_now, a_other):
    other = sym.substitute(comp, {a_now: a_other})
    for form in (("cmp", "==", comp, other), ("cmp", "==", other, comp)):
        try:
            if sym.lit_holds(gg, form, True):
                return True
        except Exception:
            pass
    return False


def run(chk):
    chk.explain("C12: (R1) RunPeriod.__call__ is equivalent (truth table over its branch atoms) to the reference position logic: unknown date / pre-start row -> False, first and last "
                "date flags, otherwise compare with the previous (or, in end-of-period mode, the next) date of the data; (R2) each comparator compares a consistent calendar key on both "
                "dates and returns 'any component differs'; (R3) the counting and date schedulers are equivalent to reference state machines, including their constructors.")
    chk.assume("pandas' definitions of .date(), .isocalendar(), .month, .quarter, .year; DatetimeIndex.get_loc finds exact matches only")
    check_equiv(chk, "C12.R1", ALGOS, "RunPeriod", "__call__", RUNPERIOD_REF, "position-logic",
                "a calendar scheduler never fires on the synthetic pre-start row or on a date outside the data, honours the first/last-date flags and otherwise compares with the neighbouring date",
                no_inline=("compare_dates",))
    period_keys(chk)
    for cls, (m, src, what) in REFS.items():
        check_equiv(chk, "C12.R3", ALGOS, cls, m, src, "state-machine", "%s: %s" % (cls, what))
    for cls, src in INIT_REFS.items():
        check_equiv(chk, "C12.R3", ALGOS, cls, "__init__", src, "initial-state", "%s starts from the documented initial state" % cls, ignore_fields=("_name",),
                    alt_refs=INIT_ALT_REFS.get(cls, ()))
    # premises of the schedulers that live elsewhere: combined with Or every scheduler is consulted on every date (stateful
    # counters step), and the synthetic pre-start row that index 0 stands for is always there
    check_equiv(chk, "C12.R3", ALGOS, "Or", "__call__", OR_REF, "or-consults-every-scheduler", "schedulers combined with Or are each consulted on every date (no short-circuit), so counting schedulers keep counting")
    backtest_rules.process_data(chk, "C12")
    backtest_rules.run_loop(chk, "C12")  # the schedulers are consulted on every date of a solvent strategy
    backtest_rules.benchmark_random_rules(chk)
    from .c13 import RUN_REF
    check_equiv(chk, "C13.R3", CORE, "Strategy", "run", RUN_REF, "strategy-run", "a strategy runs its own stack and then each child exactly once per date (a scheduler consulted twice on a date counts twice)")
