"""C13 - algo stacks short-circuit, run_always runs, temp resets, perm persists (DESIGN 5/C13)."""
import ast

from .. import sym
from ..evalfn import SELF
from ..sym import canon
from . import core_rules
from .algo_equiv import check_equiv
from .common import own_event, ALGOS, CORE, G, Roles, plain, short

TARGET = ("param", "target")

STACK_REF = '''
def ref(self, target):
    if not self.check_run_always:
        for algo in self.algos:
            if not algo(target):
                return False
        return True
    else:
        res = True
        for algo in self.algos:
            if res:
                res = algo(target)
            elif hasattr(algo, "run_always"):
                if algo.run_always:
                    algo(target)
        return res
'''

STACK_INIT_REF = '''
def ref(self, *algos):
    self._name = None
    self.algos = algos
    self.check_run_always = any(hasattr(x, "run_always") for x in self.algos)
'''

RUN_REF = '''
def ref(self):
    self.temp = {}
    self.stack(self)
    for c in self._childrenv:
        c.run()
'''

OR_REF = '''
def ref(self, target):
    res = False
    for algo in self._list_of_algos:
        tempRes = algo(target)
        res = res | tempRes
    return res
'''

NOT_REF = '''
def ref(self, target):
    return not self._algo(target)
'''

REQUIRE_REF = '''
def ref(self, target):
    if self.item not in target.temp:
        return self.if_none
    item = target.temp[self.item]
    if item is None:
        return self.if_none
    return self.pred(item)
'''

RUN_ALWAYS_REF = '''
def ref(f):
    f.run_always = True
    return f
'''

PROTO_OK = {"keys", "items", "values", "get", "copy", "update", "pop", "index", "loc", "iloc", "dropna", "__len__"}


def out_of_bounds(chk):
    R = Roles(chk.prog)
    fi = chk.prog.func(ALGOS, "RunIfOutOfBounds", "__call__")
    S = chk.summary(ALGOS, "RunIfOutOfBounds", "__call__", host="RunIfOutOfBounds")
    host = "RunIfOutOfBounds.__call__"
    chk.site()
    temp = ("fld", TARGET, "temp", 0)
    targets = ("sub", temp, ("str", "weights"))
    rets = [e for e in S.events if e.kind == "return" and tuple(e.chain) == (fi.qual,)]
    first = [e for e in rets if sym.lit_holds(sym.sat(e.guard), ("in", ("str", "weights"), temp), False)]
    ok = bool(first) and canon(first[0].value) == canon(sym.TRUE)
    chk.ob("C13.R5", ok, ALGOS, host, "no-weights-true", "without target weights the algo reports True", where=fi.where)
    inloop = [e for e in rets if e.loops]
    ok = False
    for e in inloop:
        g = G(e)
        loop = e.loops[-1]
        cname = loop.elem
        over_children = loop.iter[0] == "fld" and loop.iter[2] == "children" and loop.iter[1] == TARGET
        di = sym._dict_iter(loop.iter)
        if not over_children and di is not None and canon(di[1]) == canon(("fld", TARGET, "children", 0)) and di[0] in ("items", "keys"):
            # for name, child in target.children.items(): the same names and the same children
            over_children = True
            cname = ("item", loop.elem, 0) if di[0] == "items" else loop.elem
        over_targets = False
        if not over_children and di is not None and canon(di[1]) == canon(targets) and di[0] in ("items", "keys"):
            # the held targets are the names in both collections: walking the targets and testing membership in the children is the same set
            # (keys() / items(): the mapping protocol a dict and a Series share - a bare `for name in targets` would walk a Series' VALUES)
            over_children = over_targets = True
            cname = ("item", loop.elem, 0) if di[0] == "items" else loop.elem
        c = ("sub", ("fld", TARGET, "children", 0), cname)
        w = ("fld", c, R.WEIGHT, 0)
        t = ("sub", targets, cname)
        dev = ("call", "abs", (("/", ("-", w, t), t),), ())
        tol = ("fld", SELF, "tolerance", 0)
        other = ("in", cname, ("fld", TARGET, "children", 0)) if over_targets else ("in", cname, targets)
        held_target = sym.lit_holds(g, other, True)
        exceeded = sym.lit_holds(g, canon(("cmp", ">", dev, tol)), True)
        allowed = sym.sat([(other, True), (canon(("cmp", ">", dev, tol)), True), (("in", ("str", "weights"), temp), True)])
        extra = [l for l in plain(e.guard) if not sym.lit_holds(allowed, l[0], l[1])]  # any further condition exempts some held target from the test
        ok = over_children and held_target and exceeded and canon(e.value) == canon(sym.TRUE) and not extra
        chk.ob("C13.R5", ok, ALGOS, host, "deviation-rule", "True exactly when some held target's weight deviates from its target by more than the tolerance, relative to the target (either sign)",
               where=e.where, expected="abs((c.weight - w) / w) > tolerance for a child in both children and targets", found=sym.fmt_guard(plain(e.guard))[:260],
               sample={"condition": sym.fmt_guard(plain(e.guard))[:200]})
        reads = [p for p in S.events if p.kind == "propread" and p.name == "weight" and p.seq < e.seq and p.loops == e.loops]
        chk.ob("C13.R5", bool(reads), ALGOS, host, "deviation-reads-fresh-weight", "the current weight is read through the refreshing accessor", where=e.where)
    chk.ob("C13.R5", bool(inloop), ALGOS, host, "deviation-rule-present", "the per-child deviation test must be present", where=fi.where)
    # after the loop over the held targets: False (the cash branch, a known defect, may follow or precede that return)
    after = [r_ for r_ in rets if not r_.loops and sym.lit_holds(sym.sat(r_.guard), ("in", ("str", "weights"), temp), True)]
    chk.ob("C13.R5", any(canon(r_.value) == canon(sym.FALSE) for r_ in after), ALGOS, host, "in-bounds-false", "False when nothing deviates", where=fi.where)
    # T-PROTO: names bound to temp['weights'] are used only through the mapping protocol (dict and Series both have it)
    seen = set()
    for e in S.events:
        vals = [c_ for c_, _ in (e.graw or ())] + ([e.value] if e.value is not None else [])
        for v in vals:
            for n in sym.walk(v):
                if n[0] == "attr" and canon(n[1]) == canon(targets) and n[2] not in PROTO_OK and n[2] not in seen:
                    seen.add(n[2])
                    chk.ob("C13.R5", False, ALGOS, host, "proto:targets.%s" % n[2],
                           "temp['weights'] is a dict or a Series: neither has .%s, the cash branch raises AttributeError whenever temp['cash'] is set" % n[2], where=e.where,
                           expected="mapping-protocol access only", found="targets.%s" % n[2])


def temp_perm_ownership(chk):
    n = 0
    for f in chk.prog.all_functions(modules=(CORE,)):
        for node in ast.walk(f.node):
            if isinstance(node, (ast.Assign, ast.AugAssign)):
                ts = node.targets if isinstance(node, ast.Assign) else [node.target]
                for t in ts:
                    if isinstance(t, ast.Attribute) and t.attr in ("perm", "temp"):
                        n += 1
                        allowed = {"perm": [("Strategy", "__init__")], "temp": [("Strategy", "__init__"), ("Strategy", "run")]}[t.attr]
                        chk.ob("C13.R3", (f.cls, f.name) in allowed, f.module, f.qual, "writer:%s" % t.attr,
                               "perm is created once and never reset; temp is reset only at the start of a run", where="%s:%d" % (f.module, node.lineno), found="assigned in %s" % f.qual)
    chk.floor_count("C13.R3:temp/perm writers", n, 2)


def _mode_flag(chk):
    """the field in which the stack's constructor records whether any algo carries the run_always marker (its name is not part of the property)"""
    fi = chk.prog.func(CORE, "AlgoStack", "__init__")
    names = set()
    for node in ast.walk(fi.node):
        if isinstance(node, ast.Assign) and len(node.targets) == 1:
            t = node.targets[0]
            if (isinstance(t, ast.Attribute) and isinstance(t.value, ast.Name) and t.value.id == "self"
                    and any(isinstance(c, ast.Constant) and c.value == "run_always" for c in ast.walk(node.value))):
                names.add(t.attr)
    return names.pop() if len(names) == 1 else "check_run_always"


def stack_is_not_marked(chk):
    """the marker attribute belongs to the algos a user decorates: a stack that stores anything under that name is itself taken for a marked algo when it
    is nested in another stack (hasattr(...) selects the run_always mode, a truthy value re-runs the whole inner stack after a failure)"""
    n = 0
    for f in chk.prog.all_functions(modules=(CORE,)):
        if f.cls != "AlgoStack":
            continue
        n += 1
        for node in ast.walk(f.node):
            ts = node.targets if isinstance(node, ast.Assign) else [node.target] if isinstance(node, (ast.AugAssign, ast.AnnAssign)) else []
            for t in ts:
                if isinstance(t, ast.Attribute) and t.attr == "run_always":
                    chk.ob("C13.R2", False, CORE, f.qual, "stack-carries-marker", "a stack does not carry the run_always marker itself (nested in another stack it would count as a marked algo)",
                           where="%s:%d" % (f.module, node.lineno), expected="the mode flag under a name of its own", found="%s.run_always assigned" % ast.unparse(t.value))
    cls = chk.prog.classes.get("AlgoStack")
    if cls is not None:
        for st in cls.node.body:
            ts = st.targets if isinstance(st, ast.Assign) else [st.target] if isinstance(st, ast.AnnAssign) else []
            for t in ts:
                if isinstance(t, ast.Name) and t.id == "run_always":
                    chk.ob("C13.R2", False, CORE, "AlgoStack", "stack-carries-marker", "a stack does not carry the run_always marker itself", where="%s:%d" % (CORE, st.lineno),
                           found="class attribute run_always")
    chk.floor_count("C13.R2:AlgoStack methods", n, 2)


def run(chk):
    flag = _mode_flag(chk)
    stack_is_not_marked(chk)
    stack_ref, stack_init_ref = STACK_REF.replace("check_run_always", flag), STACK_INIT_REF.replace("check_run_always", flag)
    chk.explain("C13: AlgoStack.__call__ (both modes), its constructor's mode selection, the run_always decorator, Strategy.run, Or, Not and Require are equivalent (truth table over "
                "branch atoms, per-iteration effects) to reference models: in order, False at the first failure, each algo called at most once per pass and after a failure only when "
                "flagged run_always; temp emptied, then the stack, then each child once; perm/temp writers enumerated; Or calls every branch; RunIfOutOfBounds' deviation rule.")
    check_equiv(chk, "C13.R1", CORE, "AlgoStack", "__call__", stack_ref, "stack-execution",
                "a stack runs its algos in order and reports False at the first failure; algos marked run_always still run after a failure, each algo at most once per pass")
    check_equiv(chk, "C13.R2", CORE, "AlgoStack", "__init__", stack_init_ref, "stack-mode-selection", "the run_always mode is selected when any algo carries the run_always attribute", depth=3)
    S = chk.ref(RUN_ALWAYS_REF, None, module=ALGOS)
    check_equiv(chk, "C13.R2", ALGOS, None, "run_always", RUN_ALWAYS_REF, "run-always-decorator", "the decorator marks the algo and returns it")
    check_equiv(chk, "C13.R3", CORE, "Strategy", "run", RUN_REF, "strategy-run", "a strategy starts each run with empty temp, runs its own stack, then runs each child exactly once")
    temp_perm_ownership(chk)
    from .c19 import STRATEGY_INIT_REF
    check_equiv(chk, "C13.R3", CORE, "Strategy", "__init__", STRATEGY_INIT_REF, "strategy-construction",
                "a strategy's stack holds exactly the algos it was given, in order (the argument is consumed once, by the stack)", no_inline=("__init__",))
    check_equiv(chk, "C13.R4", ALGOS, "Or", "__call__", OR_REF, "or-runs-every-branch", "Or runs every branch (no short-circuit) and reports whether any succeeded")
    check_equiv(chk, "C13.R4", ALGOS, "Not", "__call__", NOT_REF, "not-inverts", "Not inverts its algo's result")
    check_equiv(chk, "C13.R4", ALGOS, "Require", "__call__", REQUIRE_REF, "require", "Require applies its predicate to the temp entry, with its default when the entry is absent or None")
    out_of_bounds(chk)
    core_rules.fresh_read_rules(chk, "C13")
