"""Rules over bt/backtest.py (date loop, data framing, reports) and the whole-program adjust() call-site table."""

import ast
import itertools

from .. import sym
from ..evalfn import SELF
from ..source import AnalysisError
from ..sym import canon
from .common import working_for, ALGOS, BACKTEST, CORE, G, Roles, dominates, fld, guard_subset, has_lit, lits, plain, short
from .core_rules import bound_args, equal

ADJUST_SITES = {
    # host -> (expected flow, reason)
    "SecurityBase.transact": ("False", "trade proceeds and fees are performance, not flows (checked in detail by transact_rules)"),
    "StrategyBase.allocate": ("mixed", "parent debit / self credit (checked in detail by strategy_allocate_rules)"),
    "StrategyBase.setup": ("True", "funding of the shadow copy with the fixed notional (C09)"),
    "Backtest.run": ("True", "initial capital is a flow on the synthetic pre-start row"),
    "CapitalFlow.__call__": ("True", "the CapitalFlow algo models external flows"),
}


def adjust_call_sites(chk, pid):
    """C03.R4 T-CALL: every `adjust(` call site of the program carries the flow flag the property demands."""
    n = 0
    for f in chk.prog.all_functions(modules=(CORE, ALGOS, BACKTEST)):
        for node in ast.walk(f.node):
            if isinstance(node, ast.Call) and isinstance(node.func, ast.Attribute) and node.func.attr == "adjust":
                n += 1
                chk.site()
                exp = ADJUST_SITES.get(f.qual)
                hostq = f.qual
                if exp is None:
                    # a private helper inherits the role of the function(s) it was extracted from
                    quals = sorted(set(h.qual for h in working_for(chk.prog, f)))
                    exps = set(ADJUST_SITES.get(q) for q in quals)
                    if quals and len(exps) == 1 and None not in exps:
                        exp, hostq = exps.pop(), quals[0]
                if exp is None:
                    chk.ob("C03.R4", False, f.module, f.qual, "adjust-site:unclassified", "an adjust() call site outside the enumerated table: its flow flag cannot be vouched for",
                           where="%s:%d" % (f.module, node.lineno), found=ast.unparse(node)[:120])
                    continue
                if exp[0] in ("mixed", "False"):
                    continue
                flow_kw = [k for k in node.keywords if k.arg == "flow"]
                flow_pos = node.args[2] if len(node.args) > 2 else None
                given = flow_kw[0].value if flow_kw else flow_pos
                ok = given is None or (isinstance(given, ast.Constant) and given.value is True)
                if hostq == "StrategyBase.setup" and pid != "C09":
                    continue
                if hostq != "StrategyBase.setup" and pid == "C09":
                    continue
                chk.ob("C03.R4", ok, f.module, f.qual, "adjust-flow:%s" % f.qual, "capital injected here is an external flow and must not move the index (%s)" % exp[1],
                       where="%s:%d" % (f.module, node.lineno), expected="flow=True (default)", found=ast.unparse(node)[:120], sample={"call": ast.unparse(node)[:100]})
                upd_kw = [k for k in node.keywords if k.arg == "update"]
                if upd_kw and pid in ("C03", "C06"):
                    okk = isinstance(upd_kw[0].value, ast.Constant) and upd_kw[0].value.value is True
                    chk.ob("C03.R4", okk, f.module, f.qual, "adjust-update:%s" % f.qual,
                           "a capital flow must mark the tree stale so that it is recorded on the date it happens (nothing else in this host refreshes the tree)",
                           where="%s:%d" % (f.module, node.lineno), expected="update=True (default)", found=ast.unparse(node)[:120])
    chk.floor_count("C03.R4:adjust call sites", n, 4)


def par_and_initial_price(chk, pid):
    R = Roles(chk.prog)
    par = chk.prog.const_value(CORE, "PAR")
    chk.need(par is not None, "module constant PAR is missing")
    if pid == "C03":
        chk.ob("C03.R5", float(par) == 100.0, CORE, "<module>", "PAR", "the index starts at 100", where=CORE, expected="PAR = 100.0", found=repr(par))
    fi = chk.prog.func(CORE, "StrategyBase", "__init__")
    S = chk.summary(CORE, "StrategyBase", "__init__", host="StrategyBase", depth=3)
    chk.site()
    last = None
    U = chk.summary(CORE, "StrategyBase", "update", host="StrategyBase")
    for w in U.writes(None, SELF):
        v = w.value
        if v[0] == "fld" and v[2] == R.PRICE and v[3] == 0 and canon(v[1]) == canon(SELF) and w.field != R.PRICE:
            last = w.field
    for st, _ in S.exits:
        for f_ in [R.PRICE] + ([last] if last else []):
            v = st.heap.get((canon(SELF), f_))
            ok = v is not None and sym.equal(v, sym.num(float(par)))
            chk.ob("C03.R5", ok, CORE, "StrategyBase.__init__", "initial:%s" % f_, "a strategy's price and last price start at PAR", where=fi.where, expected="PAR", found=short(v) if v else "unset")
        for f_ in [R.NET_FLOWS, R.LAST_FEE, R.CAPITAL]:
            if pid in ("C03", "C07") and f_ != R.CAPITAL or pid == "C02":
                v = st.heap.get((canon(SELF), f_))
                ok = v is not None and sym.equal(v, sym.ZERO)
                chk.ob("C03.R5", ok, CORE, "StrategyBase.__init__", "initial:%s" % f_, "accumulators start at zero", where=fi.where, expected="0", found=short(v) if v else "unset")


def process_data(chk, pid):
    """C03.R6: the synthetic first row is dated one day before the data and holds no values."""
    fi = chk.prog.func(BACKTEST, "Backtest", "_process_data")
    S = chk.summary(BACKTEST, "Backtest", "_process_data", host="Backtest")
    chk.site()
    data = ("param", "data")
    wd = S.writes("data", SELF)
    chk.need(wd, "Backtest._process_data no longer assigns self.data")
    v = wd[-1].value
    ok = False
    detail = short(v, 200)
    if v[0] == "call" and v[1] in ("pd.concat", "pandas.concat") and v[2] and v[2][0][0] == "list" and len(v[2][0]) == 3:
        first, second = v[2][0][1], v[2][0][2]
        while first[0] == "ite":
            # a helper shared with the additional data may branch on the kind of object: the price data is a frame
            cond = first[1]
            if cond[0] == "call" and cond[1] == "isinstance" and len(cond[2]) == 2 and canon(cond[2][0]) == canon(data) and cond[2][1][0] in ("func", "mod", "attr"):
                kind = repr(cond[2][1])
                if "Series" in kind and "DataFrame" not in kind:
                    first = first[3]
                    continue
                if "DataFrame" in kind and "Series" not in kind:
                    first = first[2]
                    continue
            break
        if canon(second) == canon(data) and first[0] == "call" and first[1] in ("pd.DataFrame", "pandas.DataFrame"):
            kw = dict(first[3])
            idx = kw.get("index")
            vals = first[2][0] if first[2] else kw.get("data")
            exp_idx = ("list", ("-", ("sub", ("attr", data, "index"), sym.ZERO), ("call", "pd.DateOffset", (), (("days", sym.ONE),))))
            cols = kw.get("columns")
            ok = idx is not None and canon(idx) == canon(exp_idx) and vals == ("nan",) and cols is not None and canon(cols) == canon(("attr", data, "columns"))
    chk.ob("C03.R6", ok, BACKTEST, "Backtest._process_data", "synthetic-first-row",
           "a NaN row dated data.index[0] - 1 day is prepended: the clean reference point on which initial capital enters as a flow", where=fi.where,
           expected="concat([DataFrame(nan, columns=data.columns, index=[data.index[0] - DateOffset(days=1)]), data])", found=detail, sample={"data_new": detail})
    wdt = S.writes("dates", SELF)
    ok = bool(wdt) and wdt[-1].value[0] == "attr" and wdt[-1].value[2] == "index" and canon(wdt[-1].value[1]) == canon(v)
    chk.ob("C03.R6", ok, BACKTEST, "Backtest._process_data", "dates-from-framed-data", "the backtest's dates are the framed data's index (synthetic row first)", where=fi.where)


def run_loop(chk, pid):
    """Backtest.run: has_run gate, setup, initial capital, first update on the synthetic row, then update -> run -> update per date."""
    fi = chk.prog.func(BACKTEST, "Backtest", "run")
    S = chk.summary(BACKTEST, "Backtest", "run", host="Backtest")
    host = "Backtest.run"
    chk.site()
    strat = lambda e: e.recv is not None and e.recv[0] == "fld" and e.recv[2] == "strategy" and canon(e.recv[1]) == canon(SELF)
    all_calls = [e for e in S.events if e.kind == "call" and strat(e)]
    # the loop may be written once or once per mode (e.g. with / without progress bar): every mode is checked on its own
    mode_atoms = []
    for e in all_calls:
        for a_, p_ in plain(e.guard):
            ca = canon(a_)
            if isinstance(ca, tuple) and ca and ca[0] == "not":
                ca = ca[1]
            if (not sym.contains(ca, lambda n: n[0] == "fld" and n[2] in ("strategy", "has_run")) and not sym.contains(ca, lambda n: n[0] in ("elem", "res", "lc", "wl"))
                    and ca not in mode_atoms):
                mode_atoms.append(ca)
    scenarios = [tuple(zip(mode_atoms, bits)) for bits in itertools.product((True, False), repeat=len(mode_atoms))] if len(mode_atoms) <= 3 else [()]
    for scen in scenarios:
        calls = [e for e in all_calls if not sym.inconsistent(sym.sat(tuple(plain(e.guard)) + scen))]
        if calls:
            _run_loop_scenario(chk, pid, S, fi, host, calls, scen)
    calls = all_calls
    # every date of the data is visited: nothing leaves the date loop early (a bankrupt strategy is still updated on every later date)
    date_loops = set()
    for e in all_calls:
        for l_ in (e.loops or ()):
            date_loops.add(l_)
    early = [l_ for l_ in date_loops if getattr(l_, "has_break", False)]
    if pid in ("C16", "C01", "C08", "C03", "C09", "C12", "C13"):
        chk.ob("C16.R3", not early, BACKTEST, host, "date-loop-runs-to-the-end", "the date loop visits every date (no early exit): after a bankruptcy the strategy is still updated on every "
               "remaining date, so that its history is complete and flat", where=fi.where, expected="no break in the loop over the dates")
    setup = [e for e in calls if e.name == "setup"]
    if pid in ("C11",):
        hr = S.writes("has_run", SELF)
        rets = [e for e in S.events if e.kind == "return" and any(p and a[0] == "fld" and a[2] == "has_run" for a, p in e.guard)]
        gated = all(sym.lit_holds(G(e), ("fld", SELF, "has_run", 0), False) for e in calls)  # everything the run does happens only when the flag was off on entry
        ok = bool(calls) and gated and bool(hr) and canon(hr[0].value) == canon(sym.TRUE) and hr[0].seq < setup[0].seq
        chk.ob("C11.R4", ok, BACKTEST, host, "has-run-gate", "a finished backtest asked to run again returns at once; the flag is set before anything runs", where=fi.where,
               expected="if self.has_run: return; self.has_run = True; ... setup", found="%d early returns, %d flag writes" % (len(rets), len(hr)))
        # ... and stays set: nothing the run goes through (its own helpers included) turns it off again
        off = [w for w in hr if canon(w.value) != canon(sym.TRUE)]
        chk.ob("C11.R4", not off, BACKTEST, host, "has-run-stays-set", "a backtest that has run keeps its run flag set (no helper on the way resets it), so that asking again does not re-run it",
               where=off[0].where if off else fi.where, expected="only `self.has_run = True` inside run()", found="; ".join(short(w.value, 40) for w in off)[:200])
        # ... and the module-level bt.run(*backtests) goes through that gate: it calls each backtest's public run(), never a private worker behind it
        import ast as _ast
        mf = chk.prog.functions.get((BACKTEST, "run"))
        if mf is not None:
            bk = chk.prog.classes.get("Backtest")
            called = [n_.func.attr for n_ in _ast.walk(mf.node) if isinstance(n_, _ast.Call) and isinstance(n_.func, _ast.Attribute) and bk is not None and n_.func.attr in bk.methods]
            chk.ob("C11.R4", "run" in called and all(m_ == "run" or not m_.startswith("_") for m_ in called), BACKTEST, "run", "module-run-goes-through-the-gate",
                   "bt.run() runs each backtest through its own run() (which returns at once for a finished backtest), not through a private worker", where=mf.where,
                   expected="bkt.run()", found=", ".join(called))
        sb = bound_args(setup[0], chk.prog)
        ok = setup[0].args and setup[0].args[0][0] == "fld" and setup[0].args[0][2] == "data" and canon(setup[0].args[0][1]) == canon(SELF)
        chk.ob("C11.R1", ok, BACKTEST, host, "setup-with-framed-data", "the strategy is set up with the backtest's own framed copy of the data", where=setup[0].where)


def _run_loop_scenario(chk, pid, S, fi, host, calls, scen):
    setup = [e for e in calls if e.name == "setup"]
    adjust = [e for e in calls if e.name == "adjust"]
    updates = [e for e in calls if e.name == "update"]
    runs = [e for e in calls if e.name == "run"]
    chk.need(setup and adjust and updates and runs, "Backtest.run no longer drives strategy.setup/adjust/update/run")
    in_loop = lambda e: bool(e.loops)
    pre_updates = [e for e in updates if not in_loop(e)]
    loop_updates = [e for e in updates if in_loop(e)]
    if pid in ("C03", "C04"):
        dates0 = ("sub", fld(SELF, "dates"), sym.ZERO)
        ok = bool(pre_updates) and equal(pre_updates[0].args[0], dates0) and adjust[0].seq < pre_updates[0].seq and setup[0].seq < adjust[0].seq
        chk.ob("C03.R5", ok, BACKTEST, host, "initial-capital-before-first-update", "initial capital is adjusted in before the first update, which is on the synthetic row dates[0]",
               where=fi.where, expected="setup -> adjust(initial_capital) -> update(dates[0])", found=", ".join("%s(%s)" % (e.name, short(e.args[0]) if e.args else "") for e in calls[:4]))
        a = bound_args(adjust[0], chk.prog)
        ok = a.get("amount") is not None and a["amount"][0] == "fld" and a["amount"][2] == "initial_capital"
        chk.ob("C03.R5", ok, BACKTEST, host, "initial-capital-amount", "the strategy is funded with the backtest's initial capital", where=adjust[0].where)
    if pid in ("C04", "C08", "C09", "C16", "C01", "C02", "C07", "C03", "C12", "C13"):
        chk.need(loop_updates, "Backtest.run no longer updates the strategy inside the date loop")
        loop = loop_updates[0].loops[-1]
        it = loop.iter
        ok_iter = it[0] == "sub" and it[1][0] == "fld" and it[1][2] == "dates" and it[2][0] == "slice" and canon(it[2][1]) == canon(sym.ONE) and it[2][2] == sym.NONE and it[2][3] == sym.NONE
        if pid == "C04":
            chk.ob("C04.R5", ok_iter, BACKTEST, host, "date-loop-order", "the loop feeds the dates one at a time in index order, starting after the synthetic row", where=fi.where,
                   expected="for dt in self.dates[1:]", found=short(it))
            for u in loop_updates:
                chk.ob("C04.R5", canon(u.args[0]) == canon(loop.elem), BACKTEST, host, "update-at-loop-date", "the strategy is updated to the loop's date", where=u.where, found=short(u.args[0]))
        seq = [e.name for e in calls if in_loop(e) and e.name in ("update", "run")]
        if pid in ("C08", "C09", "C04", "C01", "C02", "C07", "C03"):
            ok = seq == ["update", "run", "update"]
            chk.ob("C09.R3" if pid == "C09" else "C08.R1", ok, BACKTEST, host, "loop-sequence", "each date is processed update -> run -> update (the second update records the trades of the date)",
                   where=fi.where, expected="update, run, update", found=", ".join(seq), sample={"sequence": seq})
            before = [e for e in calls if in_loop(e) and e.seq < loop_updates[0].seq and e.loops[-1] is loop]
            chk.ob("C08.R1", not before, BACKTEST, host, "date-begins-with-update", "a date begins with the update to that date: nothing is done to the strategy while its clock still shows the "
                   "previous date (cash moved then is recorded on no date: the roll to the new date resets the flow and fee accumulators)", where=(before[0].where if before else fi.where),
                   expected="update(dt) first in the loop body", found=", ".join(e.name for e in before))
            if len(loop_updates) >= 2 and pid in ("C08", "C01", "C02", "C07", "C03"):
                second = loop_updates[-1]
                extra = [l for l in plain(second.guard) if not sym.lit_holds(sym.sat(tuple(runs[0].guard) + scen), l[0], l[1])]
                chk.ob("C08.R1", not extra and runs[0].seq < second.seq, BACKTEST, host, "post-run-update-unconditional",
                       "after the algos ran the tree is updated unconditionally, so results do not depend on whether an algo happened to refresh", where=second.where,
                       expected="update(dt) right after run()", found=sym.fmt_guard(extra))
        if pid in ("C16", "C12", "C13"):
            r = runs[0]
            bk = fld(fld(SELF, "strategy"), "bankrupt")
            ok = any((not p) and a[0] == "fld" and a[2] == "bankrupt" for a, p in r.guard)
            chk.ob("C16.R3", ok, BACKTEST, host, "run-gated-by-bankrupt", "a bankrupt strategy's algos are no longer run", where=r.where, expected="run() only under not strategy.bankrupt",
                   found=sym.fmt_guard(r.guard))
            first = loop_updates[0]
            ok = first.seq < r.seq and not [l for l in plain(first.guard) if l not in plain(loop.guard0) and not sym.lit_holds(sym.sat(scen), l[0], l[1])]
            chk.ob("C16.R3", ok, BACKTEST, host, "update-before-gate", "the strategy keeps being updated on every date (also after bankruptcy), before the gate is evaluated", where=first.where)
            extra = [l for l in plain(r.guard) if not (l[0][0] == "fld" and l[0][2] == "bankrupt") and l not in plain(first.guard) and not sym.lit_holds(sym.sat(scen), l[0], l[1])]
            chk.ob("C16.R3", not extra, BACKTEST, host, "run-gate-only-bankrupt", "a solvent strategy's algos run on every date", where=r.where, found=sym.fmt_guard(extra))


def additional_data_only_prepended(chk):
    """C04.R6: additional data bound by name is only given the synthetic first row - never re-indexed, shifted or filled
    (a sparse signal / weight / stat frame must stay sparse: the algos reading it rely on 'no row at now' to do nothing)."""
    P = chk.summary("bt/backtest.py", "Backtest", "_process_data", host="Backtest")
    for e in P.events:
        if e.kind == "store" and e.loops:
            v = e.value
            ok = v[0] == "call" and v[1] in ("pd.concat",) and v[2] and v[2][0][0] == "list" and len(v[2][0]) == 3
            if ok:
                # the second piece is the entry itself, whole and unshifted: d[k] or the value of the (k, value) pair being iterated
                old = v[2][0][2]
                idx = e.index
                ok = (old[0] == "sub" and canon(old[2]) == canon(idx)) or (old[0] == "item" and old[2] == 1 and isinstance(idx, tuple) and idx[0] == "item" and idx[2] == 0 and canon(idx[1]) == canon(old[1]))
                # ... and the first piece is one empty row dated like the price data's synthetic row: one day before the entry's first date
                rows = [n for n in sym.walk(v[2][0][1]) if n[0] == "call" and n[1] in ("pd.DataFrame", "pd.Series", "pandas.DataFrame", "pandas.Series")]
                want_idx = canon(("list", ("-", ("sub", ("attr", old, "index"), sym.ZERO), ("call", "pd.DateOffset", (), (("days", sym.ONE),)))))
                ok = ok and bool(rows) and all(r_[2] and r_[2][0] == ("nan",) and canon(dict(r_[3]).get("index", sym.NONE)) == want_idx for r_ in rows)
                # ... and only entries indexed exactly like the price data get it (anything else - a sparse signal, a table keyed differently - is passed through untouched)
                same_index = ("mcall", ("attr", old, "index"), "equals", (("attr", ("param", "data"), "index"),), ())
                ok = ok and sym.lit_holds(G(e), canon(same_index), True)
            chk.ob("C04.R6", ok, "bt/backtest.py", "Backtest._process_data", "additional-data-only-prepended", "additional data is only given the synthetic first row: rows are never shifted", where=e.where,
                   found=short(v, 140))


def benchmark_random_rules(chk):
    """The random benchmarks run on the same dates as the original: the data handed to them is the original backtest's framed
    data WITHOUT its synthetic first row (Backtest adds its own), i.e. `backtest.data.dropna()`."""
    S = chk.summary(BACKTEST, None, "benchmark_random", host=None)
    chk.site()
    class _E(object):
        pass
    news = []
    vals = [rv for _, rv in S.exits] + [getattr(e, "value", None) for e in S.events] + [a for e in S.events for a in (e.args or ())]
    for v in vals:
        if not isinstance(v, tuple):
            continue
        for n in sym.walk(v):
            if (n[0] == "call" and n[1] in ("bt.Backtest", "Backtest")) or (n[0] == "new" and n[1] == "Backtest"):
                x = _E()
                x.args, x.kwargs, x.where = n[2], dict(n[3]), S.fn.where
                if not any(y.args == x.args for y in news):
                    news.append(x)
    chk.need(news, "benchmark_random no longer builds the random backtests")
    for e in news:
        d = e.args[1] if len(e.args or ()) > 1 else (e.kwargs or {}).get("data")
        ok = (d is not None and d[0] == "mcall" and d[2] == "dropna" and d[1][0] in ("fld", "attr") and d[1][2] == "data" and d[1][1] == ("param", "backtest"))
        chk.ob("C12.R1", ok, BACKTEST, "benchmark_random", "random-backtests-on-unframed-data",
               "the random backtests get the original's data without its synthetic pre-start row (each Backtest frames its data itself): with the row kept, every scheduler's 'first date' "
               "and every counter would be shifted by one", where=e.where, expected="Backtest(random_strategy, backtest.data.dropna())", found=short(d, 120) if d is not None else "no data argument")
