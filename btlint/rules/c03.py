"""C03 - price index is a flow-neutral return index starting at 100 (DESIGN 5/C03)."""
from . import backtest_rules, core_rules
from .algo_equiv import check_equiv

CAPITAL_FLOW_REF = '''
def ref(self, target):
    target.adjust(self.amount)
    return True
'''


def run(chk):
    chk.explain("C03: (R1) the non-fixed-income index recurrence price = last_price * value / (last_value + net_flows) in normal form; (R2) last price/value snapshots and the flow "
                "reset happen exactly on a date change, tested against the pre-update clock; (R3) the flow accumulator has three write kinds; (R4) every adjust() call site carries the "
                "flow flag the property demands; (R5/R6) PAR, initial price, initial capital as a flow on the synthetic pre-start row.")
    core_rules.strategy_update(chk, "C03")
    core_rules.adjust_rules(chk, "C03")
    core_rules.transact_rules(chk, "C03")
    core_rules.strategy_allocate_rules(chk, "C03")
    core_rules.ownership_rules(chk, "C03", roles=("NET_FLOWS",))
    backtest_rules.adjust_call_sites(chk, "C03")
    backtest_rules.par_and_initial_price(chk, "C03")
    backtest_rules.process_data(chk, "C03")
    backtest_rules.run_loop(chk, "C03")
    check_equiv(chk, "C03.R4", "bt/algos.py", "CapitalFlow", "__call__", CAPITAL_FLOW_REF, "capital-flow", "CapitalFlow adjusts the target by its amount as a flow that marks the tree stale")
    core_rules.accessor_rules(chk, "C03")
    # a flow is recorded by the next refresh: the mutators that defer it (update=False) have to leave the tree marked, or the accumulator is wiped at the date roll
    n = core_rules.defer_rules(chk, "C03", modules=("bt/core.py",), only_hosts=("StrategyBase.allocate", "StrategyBase.adjust", "StrategyBase.transact"))
    chk.floor_count("C01.R6:deferred-update call sites", n, 2)
    core_rules.set_commissions_rules(chk, "C03")  # fees move the index only if the schedule reaches every strategy of the tree
    from .c05 import settings_reach_every_node

    settings_reach_every_node(chk, "C03")  # with fractional positions the index does not depend on the capital: the fractional mode has to reach every security
    core_rules.float_history_tables(chk, "C03")  # the flows (and value) histories the index recurrence is stated over hold what update writes: float columns
    from .c17 import renormalized
    renormalized(chk)  # the renormalised fixed-income index is built on the same recurrence: value change net of the SAME date's flows
