"""Rule instances over bt/core.py's accounting engine (update family, mutators, accessors).

Every function takes the Check and the property id it is being evaluated for; the attribution
(which instance fires for which property) follows DESIGN Appendix E and is decided here.
"""

import ast

from .. import sym
from ..evalfn import SELF, property_backing
from ..source import AnalysisError
from ..sym import canon
from .common import (selects_strategies, child_receiver, over_all_children, own_event, CORE, G, GX, plain, truth_equiv, working_for, increments_by, loop_conditions, store_increment, Roles, cur, dominates, final_value, fld, guard_subset, has_lit, hist_fill, hist_store, is_entry, lits, loops_prefix,
                     mentions_field, mentions_param, postdominates, series_name, short)

SEC_CLASSES = ["SecurityBase", "Security", "FixedIncomeSecurity", "CouponPayingSecurity", "HedgeSecurity", "CouponPayingHedgeSecurity"]
NOTL_KIND = {"SecurityBase": "value", "Security": "value", "FixedIncomeSecurity": "position", "CouponPayingSecurity": "position", "HedgeSecurity": "zero",
             "CouponPayingHedgeSecurity": "zero"}

DATE = ("param", "date")
INOW = ("param", "inow")


def norm_versions(v):
    """Collapse havoc epochs: 0 (entry) stays, every later version becomes 1 ('after the call')."""
    if isinstance(v, tuple):
        if v and v[0] == "fld" and len(v) == 4:
            return ("fld", norm_versions(v[1]), v[2], 0 if v[3] == 0 else 1)
        return tuple(norm_versions(x) for x in v)
    if isinstance(v, frozenset):
        return frozenset(norm_versions(x) for x in v)
    return v


def equal(a, b):
    return sym.equal(norm_versions(a), norm_versions(b))


def _strip_all_versions(v):
    if isinstance(v, tuple):
        if v and v[0] == "fld" and len(v) == 4:
            return ("fld", _strip_all_versions(v[1]), v[2], 0)
        if v and v[0] == "rat":
            return v
        return tuple(_strip_all_versions(x) for x in v)
    return v


def is_inow(v, obj=SELF, guard=None):
    """Row index is the resolved `inow`, decided by scenarios rather than by shape: when the parameter is given the
    index is the parameter; when it is None the index is 0 for date 0 and `data.index.get_loc(date)` otherwise.
    (A bare `inow` where it may still be None would address the whole array.)"""
    base = tuple(guard or ())
    none_inow = ("isnone", INOW)
    z_date = canon(("cmp", "==", DATE, sym.ZERO))
    scen = [
        (((none_inow, False),), lambda r: canon(r) == canon(INOW)),
        (((none_inow, True), (z_date, True)), lambda r: canon(r) == canon(sym.ZERO)),
        (((none_inow, True), (z_date, False)), _is_get_loc),
    ]
    for lits_, pred in scen:
        g = sym.sat(base + lits_)
        if sym.inconsistent(g):
            continue
        r = sym.restrict(v, g)
        if not pred(r):
            return False
    return True


def _is_get_loc(v):
    return (isinstance(v, tuple) and v and v[0] == "mcall" and v[2] == "get_loc" and len(v[3]) == 1 and (v[3][0] == DATE or (v[3][0][0] == "fld" and v[3][0][2] == "now"))
            and v[1][0] == "attr" and v[1][2] == "index")


def _strip(v):
    return v


def early_return_atoms(R):
    date_same = canon(("cmp", "==", DATE, fld(SELF, "now")))
    return date_same


# ------------------------------------------------------------------------------------------------
# Security update family


def security_update(chk, pid):
    """C01.R1 / C17.R1 / C01.R4 / C08.R1 / C08.R4 / C07.R4 on every security class's `update`."""
    R = Roles(chk.prog)
    prog = chk.prog
    date_same = canon(("cmp", "==", DATE, fld(SELF, "now")))
    for K in SEC_CLASSES:
        if K not in prog.classes:
            raise AnalysisError("anchor missing: class %s" % K)
        fi = prog.resolve(K, "update")
        chk.need(fi is not None, "anchor missing: %s.update" % K)
        S = chk.summary(fi.module, fi.cls, "update", host=K)
        chk.site()
        host = "%s.update" % K
        pos0 = fld(SELF, R.POSITION)
        writes_value = S.writes(R.VALUE, SELF)
        chk.need(writes_value, "%s no longer assigns the value field" % host)
        n_exits_checked = 0
        for st, _rv in S.exits:
            g0 = G(st)
            v_all = sym.restrict(final_value(st, SELF, R.VALUE), g0)
            for cg, leaf in sym.cases(v_all):
                gg = sym.sat(tuple(g0) + tuple(cg))
                if is_entry(leaf, SELF, R.VALUE):
                    # ---- C08.R1 / C01: the shortcut is taken only when neither date nor position changed
                    if pid in ("C01", "C08", "C02"):
                        ok_date = sym.lit_holds(gg, date_same, True)
                        ok_pos = any(p and a[0] == "cmp" and a[1] == "==" and mentions_field(a, R.POSITION, SELF) for a, p in gg)
                        chk.ob("C08.R1", ok_date and ok_pos, fi.module, host, "early-return-condition",
                               "the shortcut exit of %s must be taken only when the date is unchanged and the position equals the last recorded position" % host,
                               where=fi.where, expected="date == now and last position == position", found=sym.fmt_guard(cg) or sym.fmt_guard(st.guard),
                               sample={"exit_guard": sym.fmt_guard(tuple(st.guard) + tuple(cg))[:200]})
                    continue
                n_exits_checked += 1
                p_final = sym.restrict(final_value(st, SELF, R.SPRICE), gg)
                m_final = sym.restrict(final_value(st, SELF, "multiplier"), gg)
                q_final = sym.restrict(final_value(st, SELF, R.POSITION), gg)
                # ---- C01.R1: value == position * price * multiplier (0 when the price is NaN and flat)
                if pid in ("C01", "C02"):
                    nan = sym.lit_holds(gg, ("isnan", canon(p_final)), True)
                    if nan:
                        ok = canon(leaf) == canon(sym.ZERO) and sym.lit_holds(gg, ("zero", sym._abs_norm(sym.to_rat(q_final))), True)
                        exp = "0 under NaN price and zero position"
                    else:
                        ok = equal(leaf, ("*", ("*", q_final, p_final), m_final))
                        exp = "position * price * multiplier"
                    chk.ob("C01.R1", ok, fi.module, host, "value-formula:%s" % ("nan" if nan else "priced"),
                           "security value must be position x current price x multiplier", where=fi.where, expected=exp, found=short(leaf),
                           sample={"value": short(leaf), "guard": sym.fmt_guard(cg)[:160]})
                # ---- C01.R1b / C02: where the price comes from
                if pid in ("C01", "C02", "C04", "C05") and K == "SecurityBase":
                    ps = ("fld", SELF, "_prices_set", 0)
                    for prices_known in (True, False):
                        sc = [(canon(ps), prices_known), (date_same, False)]
                        if not prices_known:
                            sc.append((("isnone", ("param", "data")), False))
                        g2 = sym.sat(tuple(gg) + tuple(sc))
                        if sym.inconsistent(g2):
                            continue
                        pf = sym.restrict(final_value(st, SELF, R.SPRICE), g2)
                        if prices_known:
                            okp = pf[0] == "sub" and pf[1][0] == "attr" and pf[1][2] == "values" and pf[1][1][0] == "fld" and pf[1][1][2] == R.SPRICES and is_inow(pf[2], guard=g2)
                            exp_p = "%s.values[inow]" % R.SPRICES
                        else:
                            quote = pf
                            if (pf[0] == "mcall" and len(pf) == 5 and pf[2] == "get" and len(pf[3]) == 2 and not pf[4] and canon(pf[1]) == canon(("param", "data"))
                                    and canon(pf[3][1]) in (canon(("nan",)), canon(("attr", ("mod", "np"), "nan")), canon(("func", "np.nan")))):
                                # a row that lacks the security gives a missing price (which every trade and every open position refuses), one that has it gives the quote
                                quote = ("sub", pf[1], pf[3][0])
                            okp = canon(quote) == canon(("sub", ("param", "data"), fld(SELF, "name")))
                            exp_p = "data[self.name]"
                            # ... and a quote that was handed in is recorded in the security's own price history (that is what `prices` reports)
                            rec = [e for e in S.events if hist_store(e) and series_name(hist_store(e)[0]) == R.SPRICES and not sym.inconsistent(sym.sat(tuple(g2) + tuple(lits(plain(e.guard)))))
                                   and canon(sym.restrict(hist_store(e)[2], g2)) == canon(pf) and is_inow(hist_store(e)[1], guard=g2)]
                            chk.ob("C01.R1", bool(rec), fi.module, host, "price-source:handed-in-recorded",
                                   "a quote handed to update() is written into the security's price history at the current row", where=fi.where, expected="%s.values[inow] = data[self.name]" % R.SPRICES)
                        chk.ob("C01.R1", okp, fi.module, host, "price-source:%s" % ("stored" if prices_known else "handed-in"),
                               "on a new date the price is the security's own stored price series at the current row when it was given at setup (what the `prices` history reports), "
                               "and the quote handed to update() only otherwise", where=fi.where, expected=exp_p, found=short(pf, 160))
                # ---- C17.R1 / C01.R1c: notional value per class
                if pid in ("C17", "C01"):
                    n_final = sym.restrict(final_value(st, SELF, R.NOTIONAL), gg)
                    kind = NOTL_KIND[K]
                    exp_v = {"value": leaf, "position": q_final, "zero": sym.ZERO}[kind]
                    ok = equal(n_final, exp_v)
                    if pid == "C17" or kind == "value":
                        chk.ob("C17.R1", ok, fi.module, host, "notional:%s" % kind,
                               "notional value of %s must be its %s" % (K, {"value": "market value", "position": "position (par)", "zero": "zero"}[kind]), where=fi.where,
                               expected=kind, found=short(n_final), sample={"notional": short(n_final)})
                # ---- last-position tracking (supports the shortcut)
                if pid in ("C01", "C08"):
                    lp = _last_pos_field(S, R)
                    if lp is not None:
                        lpv = sym.restrict(final_value(st, SELF, lp), gg)
                        chk.ob("C08.R1", equal(lpv, q_final), fi.module, host, "last-position-snapshot",
                               "the position remembered for the shortcut must be refreshed whenever the security is marked", where=fi.where,
                               expected="last position := position", found=short(lpv))
                    else:
                        chk.ob("C08.R1", False, fi.module, host, "last-position-snapshot", "the shortcut must compare the position with the last recorded position", where=fi.where)
                # ---- rows
                _rows_case(chk, pid, S, fi, host, R, K, st, gg)
        chk.need(n_exits_checked > 0, "%s has no exit that recomputes the value" % host)
        # ---- rows: C08.R4 append-only
        _rows_index(chk, pid, S, fi, host, R, K)
        # ---- C08.R1: price / spread refresh and bid-offer reset only on a date change
        if pid in ("C08", "C07") and K == "SecurityBase":
            for w in S.writes(None, SELF):
                if w.field in (R.SPRICE, R.BIDOFFER) and pid == "C08":
                    ok = has_lit(w.guard, date_same, False)
                    chk.ob("C08.R1", ok, fi.module, host, "refresh-under-date-change:%s" % w.field,
                           "%s is refreshed from the data only when the date changed" % w.field, where=w.where, expected="under date != now",
                           found=sym.fmt_guard(w.guard))
                if w.field == R.BIDOFFER_PAID and canon(w.value) == canon(sym.ZERO):
                    ok = has_lit(w.guard, date_same, False)
                    chk.ob("C08.R1", ok, fi.module, host, "bidoffer-paid-reset", "the per-date bid/offer accumulator is zeroed only when the date changed",
                           where=w.where, expected="under date != now", found=sym.fmt_guard(w.guard))
        # ---- C01.R5: needupdate typestate
        if pid in ("C01", "C02", "C17") and K == "SecurityBase":
            nws = S.writes(R.NEEDUPDATE, SELF)
            for w in nws:
                if canon(w.value) == canon(sym.FALSE):
                    qv = cur(w, SELF, R.POSITION)
                    wv = cur(w, SELF, R.WEIGHT)
                    ok = (has_lit(w.guard, ("zero", sym._abs_norm(sym.to_rat(qv))), True) and has_lit(w.guard, ("zero", sym._abs_norm(sym.to_rat(wv))), True))
                    chk.ob("C01.R5", ok, fi.module, host, "needupdate-off-only-when-flat",
                           "a security may be dropped from the update loop only when both its weight and its position are zero", where=w.where,
                           expected="under is_zero(weight) and is_zero(position)", found=sym.fmt_guard(w.guard), sample={"guard": sym.fmt_guard(w.guard)})
                    vw = [x for x in S.writes(R.VALUE, SELF) if x.seq < w.seq]
                    chk.ob("C01.R5", bool(vw), fi.module, host, "needupdate-off-after-value", "the flag is cleared only after the value has been recomputed",
                           where=w.where)
        # ---- C07.R4 / C08.R2: outlay flush and reset
        if pid in ("C07", "C08") and K == "SecurityBase":
            _outlay_flush(chk, pid, S, fi, host, R)


def _last_pos_field(S, R):
    """The field compared with POSITION in the shortcut test (role LAST(position))."""
    seen = []
    for e in S.events:
        for a, p in e.guard:
            for n in sym.walk(a):
                if n[0] == "cmp" and n[1] == "==" and mentions_field(n, R.POSITION, SELF):
                    names = set()
                    for m in sym.walk(n):
                        if m[0] == "fld" and m[2] != R.POSITION and canon(m[1]) == canon(SELF):
                            names.add(m[2])
                    if len(names) == 1:
                        seen.append(names.pop())
    return seen[0] if seen else None


def _pairs_for(K, R, prog):
    pairs = [(R.VALUE, R.SVALUES, "C01"), (R.NOTIONAL, R.SNOTIONALS, "C01"), (R.POSITION, R.POSITIONS, "C01"), (R.BIDOFFER_PAID, R.BIDOFFERS_PAID, "C07")]
    if prog.is_subclass(K, "CouponPayingSecurity"):
        pairs += [(R.COUPON, R.COUPONS, "C17"), (R.HOLDING_COST, R.HOLDING_COSTS, "C17")]
    return pairs


def _rows_index(chk, pid, S, fi, host, R, K):
    """C08.R4 append-only: every in-place history write is at the current index."""
    stores = [(e, hist_store(e)) for e in S.events if hist_store(e)]
    fills = [(e, hist_fill(e)) for e in S.events if hist_fill(e)]
    if pid in ("C08", "C04"):
        for e, (ser, idx, val, aug) in stores:
            sn = series_name(ser)
            ok = is_inow(idx, guard=e.guard)
            chk.ob("C08.R4", ok, fi.module, host, "row-index:%s" % sn, "history rows are written only at the current index", where=e.where,
                   expected="index inow / get_loc(date) / 0 on the first update", found=short(idx), sample={"series": sn, "index": short(idx)})
        for e, (ser, val) in fills:
            sn = series_name(ser)
            ok = NOTL_KIND.get(K) == "zero" and sn == R.SNOTIONALS and val is not None and canon(val) == canon(sym.ZERO)
            chk.ob("C08.R4", ok, fi.module, host, "whole-series-fill:%s" % sn,
                   "a whole-series in-place write is allowed only for the identically-zero notional series of hedge securities", where=e.where, found=short(val))


def _rows_case(chk, pid, S, fi, host, R, K, st, gg):
    """T-PAIR on one non-shortcut case of one exit: each cached field's row is written, at inow, from the field's final value."""
    stores = [(e, hist_store(e)) for e in S.events if hist_store(e)]
    fills = [(e, hist_fill(e)) for e in S.events if hist_fill(e)]
    for field, series, owner in _pairs_for(K, R, chk.prog):
        attributed = (pid == owner) or (pid == "C17" and field == R.NOTIONAL and NOTL_KIND.get(K) != "value") or (pid == "C18" and owner == "C07")
        if not attributed:
            continue
        if NOTL_KIND.get(K) == "zero" and field == R.NOTIONAL:
            ok = any(series_name(ser) == series for _, (ser, _v) in fills) or any(series_name(hs[0]) == series for _, hs in stores)
            chk.ob("C01.R4", ok, fi.module, host, "row:%s" % series, "the notional row of a hedge security is recorded as zero", where=fi.where)
            continue
        fv = sym.restrict(final_value(st, SELF, field), gg)
        cands = [(e, hs) for e, hs in stores if series_name(hs[0]) == series and guard_subset([l for l in e.guard if not _feature_flag(l)], gg)]
        if field == R.BIDOFFER_PAID:
            # optional feature: the row exists only when bid/offer accounting is on
            flagged = [(e, hs) for e, hs in stores if series_name(hs[0]) == series]
            if not flagged:
                chk.ob("C01.R4", False, fi.module, host, "row:%s" % series, "the %s row must be recorded" % series, where=fi.where)
                continue
            cands = cands or [x for x in flagged if guard_subset([l for l in x[0].guard if not _feature_flag(l)], gg)]
        if not cands:
            anyst = [(e, hs) for e, hs in stores if series_name(hs[0]) == series]
            chk.ob("C01.R4", False, fi.module, host, "row:%s" % series, "the %s row must be recorded on every path that recomputes %s" % (series, field),
                   where=fi.where, expected="store into %s at inow" % series,
                   found="no store" if not anyst else "store only under %s" % sym.fmt_guard(anyst[-1][0].guard)[:200])
            continue
        e, (ser, idx, val, aug) = cands[-1]
        val = sym.restrict(val, gg)
        ok = aug is None and equal(val, fv) and is_inow(idx, guard=e.guard)
        chk.ob("C01.R4", ok, fi.module, host, "row:%s" % series, "the %s row must equal the end-of-update %s" % (series, field), where=e.where,
               expected=short(fv), found=short(val), sample={"series": series, "field": field, "stored": short(val)})


def _feature_flag(l):
    a, p = l
    return a[0] == "fld" and a[2] in ("_bidoffer_set",) and p


def _outlay_flush(chk, pid, S, fi, host, R):
    stores = [(e, hist_store(e)) for e in S.events if hist_store(e)]
    flushes = [(e, hs) for e, hs in stores if series_name(hs[0]) == R.OUTLAYS]
    chk.need(flushes, "%s no longer records outlays" % host)
    for e, (ser, idx, val, aug) in flushes:
        acc = None
        inc = store_increment(e)
        for n in sym.walk(inc if inc is not None else val):
            if n[0] == "fld" and canon(n[1]) == canon(SELF):
                acc = n[2]
        ok_aug = inc is not None and acc is not None and equal(inc, cur(e, SELF, acc))
        if acc is not None and pid == "C07":
            accv = cur(e, SELF, acc)
            za = ("zero", sym._abs_norm(sym.to_rat(accv)))
            own = [l for l in plain(e.guard) if mentions_field(l[0], acc, SELF)]
            okg = all(canon(l[0]) == canon(za) and l[1] is False for l in own)
            chk.ob("C07.R4", okg, fi.module, host, "outlay-flush-condition", "a pending outlay is flushed whenever it is non-zero", where=e.where,
                   expected="unconditional, or under %s != 0" % acc, found=sym.fmt_guard(own))
        chk.ob("C07.R4", ok_aug, fi.module, host, "outlay-flush", "the pending outlay is added to the date's outlay row", where=e.where,
               expected="row += pending outlay", found="row %s= %s" % (aug or "", short(val)))
        aug = "+" if inc is not None else aug
        if acc is None:
            continue
        resets = [w for w in S.writes(acc, SELF) if w.seq > e.seq and canon(w.value) == canon(sym.ZERO) and guard_subset(w.guard, e.guard)]
        chk.ob("C07.R4" if pid == "C07" else "C08.R2", bool(resets), fi.module, host, "outlay-reset-after-flush",
               "the pending outlay is zeroed right after it has been flushed (otherwise a repeated update books it twice)", where=e.where,
               expected="%s = 0 after the flush, on the same path" % acc, found="no reset on the flush path")
    # no other augmented (non-idempotent) history write
    if pid == "C08":
        for e, (ser, idx, val, aug) in stores:
            if (aug is not None or store_increment(e) is not None) and series_name(ser) != R.OUTLAYS:
                chk.ob("C08.R2", False, fi.module, host, "non-idempotent-row:%s" % series_name(ser), "history rows are assigned, not accumulated, so that a repeated update is idempotent",
                       where=e.where, found="%s[...] %s= ..." % (series_name(ser), aug))


# ------------------------------------------------------------------------------------------------
# Coupon-paying securities (C17.R2, C02 accrual kind)

COUPON_REF = '''
def ref(self, coupon, cost_long, cost_short):
    if self._position > 0 and self._cost_long is not None:
        hc = self._position * cost_long
    elif self._position < 0 and self._cost_short is not None:
        hc = -self._position * cost_short
    else:
        hc = 0.0
    return hc
'''


def coupon_accrual(chk, pid):
    R = Roles(chk.prog)
    for K in ("CouponPayingSecurity", "CouponPayingHedgeSecurity"):
        fi = chk.prog.resolve(K, "update")
        S = chk.summary(fi.module, fi.cls, "update", host=K)
        host = "%s.update" % K
        chk.site()
        for st, _ in S.exits:
            cfin = final_value(st, SELF, R.COUPON)
            if all(is_entry(leaf, SELF, R.COUPON) for _, leaf in sym.cases(cfin)):
                continue
            q = final_value(st, SELF, R.POSITION)
            # coupon = position * coupon[inow]; 0 when NaN and flat (one scenario per combination; NaN on an open position never reaches a normal exit)
            cpn_any = _row_read(cfin, "_coupons")
            if cpn_any is None:
                for a_, p_ in st.guard:
                    cpn_any = cpn_any or _row_read(a_, "_coupons")
            nan_atom = canon(("isnan", cpn_any)) if cpn_any is not None else None
            zq_ = ("zero", sym._abs_norm(sym.to_rat(q)))
            for is_nan in (True, False):
                for flat in (True, False):
                    scen = ((zq_, flat),) + (((nan_atom, is_nan),) if nan_atom is not None else ())
                    g0 = sym.sat(tuple(lits(st.guard)) + scen)
                    if sym.inconsistent(g0):
                        continue
                    for g, leaf, raws in sym.split_cases(sym.restrict(cfin, g0), raw=True):
                        gg = GX(st, tuple(g) + scen, raws)
                        if sym.inconsistent(gg):
                            continue
                        leaf = sym.restrict(leaf, gg)
                        cpn = _row_read(leaf, "_coupons")
                        if is_nan:
                            ok = flat and equal(leaf, sym.ZERO)
                            chk.ob("C17.R2", ok, fi.module, host, "coupon:nan", "a NaN coupon is tolerated only on a flat position (and then accrues nothing)", where=fi.where,
                                   found="%s under %s" % (short(leaf), sym.fmt_guard(scen)))
                        else:
                            ok = (cpn is not None and equal(leaf, ("*", q, cpn)) and is_inow(cpn[2])) or (flat and equal(leaf, sym.ZERO))  # 0 x coupon is 0
                            chk.ob("C17.R2", ok, fi.module, host, "coupon:formula", "coupon accrued = position x coupon at the current row", where=fi.where,
                                   expected="position * coupons[inow]", found=short(leaf), sample={"coupon": short(leaf)})
            # holding cost: one scenario per side of the position and per schedule present / absent
            hfin = final_value(st, SELF, R.HOLDING_COST)
            gt, lt, zq = canon(("cmp", ">", q, sym.ZERO)), canon(("cmp", "<", q, sym.ZERO)), ("zero", sym._abs_norm(sym.to_rat(q)))
            no_long, no_short = canon(("isnone", fld(SELF, "_cost_long"))), canon(("isnone", fld(SELF, "_cost_short")))
            absq = ("call", "abs", (q,), ())
            for side, slits in (("long", ((gt, True), (lt, False), (zq, False))), ("short", ((gt, False), (lt, True), (zq, False))), ("flat", ((gt, False), (lt, False), (zq, True)))):
                for nl in (True, False):
                    for ns in (True, False):
                        scen = slits + ((no_long, nl), (no_short, ns))
                        g0 = sym.sat(tuple(lits(st.guard)) + scen)
                        if sym.inconsistent(g0):
                            continue
                        for g, leaf, raws in sym.split_cases(sym.restrict(hfin, g0), raw=True):
                            gg = GX(st, tuple(g) + scen, raws)
                            if sym.inconsistent(gg):
                                continue
                            leaf = sym.restrict(leaf, gg)
                            cl = _row_read(leaf, "_cost_long")
                            cs = _row_read(leaf, "_cost_short")
                            if side == "long" and not nl:
                                ok = cl is not None and cs is None and (equal(leaf, ("*", q, cl)) or equal(leaf, ("*", absq, cl))) and is_inow(cl[2])
                                exp, key = "position * cost_long[inow] under position > 0", "long"
                            elif side == "short" and not ns:
                                ok = cs is not None and cl is None and (equal(leaf, ("neg", ("*", q, cs))) or equal(leaf, ("*", absq, cs))) and is_inow(cs[2])
                                exp, key = "-position * cost_short[inow] under position < 0", "short"
                            else:
                                ok = equal(leaf, sym.ZERO)
                                exp, key = "0 when flat or no cost data", "none"
                            chk.ob("C17.R2", ok, fi.module, host, "holding-cost:%s" % key,
                                   "holding cost is charged on the absolute position with the long/short schedule", where=fi.where, expected=exp, found=short(leaf),
                                   sample={"holding_cost": short(leaf), "guard": sym.fmt_guard(scen)})
            # parked amount
            capfin = final_value(st, SELF, R.CAPITAL)
            ok = equal(capfin, ("-", cfin, hfin))
            chk.ob("C17.R2", ok, fi.module, host, "parked-carry", "the security parks coupon minus holding cost for the parent to sweep", where=fi.where,
                   expected="coupon - holding_cost", found=short(capfin))
        # C10.R1 guard: NaN coupon with open position raises before the capital is set
        if pid == "C10":
            raises = [e for e in S.raises if any(a[0] == "isnan" and _row_read(a, "_coupons") is not None for a, p in e.guard if p)]
            capw = S.writes(R.CAPITAL, SELF)
            ok = bool(raises) and all(any(r.seq < w.seq for r in raises) for w in capw)
            chk.ob("C10.R1", ok, fi.module, host, "guard:nan-coupon-open-position", "a NaN coupon on an open position must raise before anything is accrued",
                   where=fi.where, expected="raise under isnan(coupon) and not is_zero(position)", found="%d matching raise sites" % len(raises))
            for r in raises:
                q = cur(r, SELF, R.POSITION)
                ok = has_lit(r.guard, ("zero", sym._abs_norm(sym.to_rat(q))), False)
                chk.ob("C10.R1", ok, fi.module, host, "guard:nan-coupon-open-position:cond", "the NaN-coupon error is raised exactly for open positions", where=r.where,
                       found=sym.fmt_guard(r.guard))


def _row_read(v, series):
    """Find a sub-value `self.<series>.values[idx]` inside v."""
    for n in sym.walk(v):
        if n[0] == "sub" and n[1][0] == "attr" and n[1][2] == "values" and n[1][1][0] == "fld" and n[1][1][2] == series:
            return n
    return None


# ------------------------------------------------------------------------------------------------
# StrategyBase.update

STRAT_VALUE_REF = '''
def ref(self, date, data, inow, newpt):
    val = self._capital
    notl = 0.0
    coupons = 0
    bop = 0.0
    for c in self._childrenv:
        if c._issec and newpt:
            coupons += c._capital
        if c._issec and not c._needupdate:
            continue
        c.update(date, data, inow)
        val += c.value
        notl += abs(c.notional_value)
        if self._bidoffer_set:
            bop += c.bidoffer_paid
    return val + coupons, notl, self._capital + coupons, bop
'''


def restrict_sums(v, g):
    """Resolve, under the literal set g, the filters of the sums inside v: a filter literal that holds is dropped, one that fails empties the sum."""
    if not isinstance(v, tuple) or not v:
        return v
    if v[0] == "sum" and len(v) == 4:
        keep = []
        for a, p in v[2]:
            if sym.lit_holds(g, a, p):
                continue
            if sym.lit_holds(g, a, not p):
                return sym.ZERO
            keep.append((a, p))
        return ("sum", restrict_sums(v[1], g), tuple(keep), restrict_sums(v[3], g))
    if v[0] == "rat":
        return v
    return tuple(restrict_sums(x, g) for x in v)


def equal_under(v, exp, g):
    """equal(v, exp) with both sides restricted by the case's literals (phi nodes and sum filters)"""
    gs = sym.sat(tuple(g))
    return equal(restrict_sums(sym.restrict(v, gs), gs), restrict_sums(sym.restrict(exp, gs), gs))


def _newpt(R):
    now0 = fld(SELF, "now")
    return ("or", ("cmp", "==", now0, sym.ZERO), ("cmp", "!=", DATE, now0))


def strategy_update(chk, pid):
    R = Roles(chk.prog)
    prog = chk.prog
    fi = prog.func(CORE, "StrategyBase", "update")
    S = chk.summary(CORE, "StrategyBase", "update", host="StrategyBase")
    host = "StrategyBase.update"
    chk.site()
    newpt = _newpt(R)
    date_changed = canon(("cmp", "!=", DATE, fld(SELF, "now")))
    ref = chk.ref(STRAT_VALUE_REF.replace("_capital", R.CAPITAL).replace("_needupdate", R.NEEDUPDATE), "StrategyBase", bindings={"newpt": newpt})
    rv = ref.exits[-1][1]
    ref_val, ref_notl, ref_cap, ref_bop = rv[1], rv[2], rv[3], rv[4]
    children_truthy = canon(fld(SELF, "children"))

    def children_cases(v):
        """split on the `if self.children:` wrapper; the no-children case must equal the reference with empty sums"""
        return sym.split_cases(v)

    def empty_children(g):
        return any((not p) and canon(a) == children_truthy for a, p in g) or any(p and canon(a) == canon(("isnone", fld(SELF, "children"))) for a, p in g)

    def drop_sums(v):
        if isinstance(v, tuple):
            if v and v[0] == "sum":
                return sym.ZERO
            return tuple(drop_sums(x) for x in v)
        return v

    vw = S.writes(R.VALUE, SELF)
    chk.need(vw, "%s no longer assigns the value field" % host)
    the_val = vw[-1].value
    # ---- C01.R2 / C02: value = cash + sum of (updated) children + swept coupons
    if pid in ("C01", "C02", "C07", "C17"):
        for w in vw:
            for g, v in children_cases(w.value):
                exp = drop_sums(ref_val) if empty_children(g) else ref_val
                if empty_children(g):
                    v = drop_sums(v)  # the value list is empty exactly when the children dict is (kept together by _add_children): sums over it vanish
                ok = equal(v, exp) or equal_under(v, exp, g)
                if pid in ("C01", "C02"):
                    chk.ob("C01.R2", ok, CORE, host, "strategy-value", "a strategy's value is its cash plus the sum of its children's values (plus the coupons swept this step)",
                           where=w.where, expected=short(exp, 300), found=short(v, 300), sample={"value": short(v, 200)})
        # the sweep: what is added to cash is what is removed from the children
        capw = S.writes(R.CAPITAL, SELF)
        own = [w for w in capw if own_event(w, S.fn.qual)]
        chk.need(own, "%s no longer sweeps child cash into the strategy's cash" % host)
        wcap = own[-1]
        for g, v in children_cases(wcap.value):
            exp = drop_sums(ref_cap) if empty_children(g) else ref_cap
            if empty_children(g):
                v = drop_sums(v)
            ok = equal(v, exp) or equal_under(v, exp, g)
            chk.ob("C02.R3", ok, CORE, host, "sweep-credit", "exactly the securities' parked cash is added to the strategy's cash, once", where=wcap.where,
                   expected=short(exp, 240), found=short(v, 240), sample={"cash_after_sweep": short(v, 200)})
        zeroed = [w for w in S.events if w.kind == "write" and w.field == R.CAPITAL and w.obj[0] == "elem" and canon(w.value) == canon(sym.ZERO)]
        ok = bool(zeroed)
        issec_newpt = None
        if zeroed:
            z = zeroed[0]
            # the zeroing and the accumulation sit under the same gate: compare with the gate of the reference sum
            refsum_guards = [n[2] for n in sym.walk(ref_cap) if n[0] == "sum"]
            zg = tuple(l for l in lits(plain(z.guard)) if sym.contains(l[0], lambda n: n[0] == "elem") or sym.contains(l[0], lambda n: n == DATE))
            ok = any(set(norm_versions(rg)) == set(norm_versions(tuple(sorted(zg, key=repr)))) for rg in refsum_guards)
        chk.ob("C02.R3", ok, CORE, host, "sweep-debit", "every child whose cash is swept is zeroed under the same condition (security child, new date)",
               where=zeroed[0].where if zeroed else fi.where, expected="c.capital = 0 under c._issec and newpt", found=sym.fmt_guard(zeroed[0].guard) if zeroed else "no zeroing")
        # pay-next-date: sweep precedes the child's update (C17.R3)
        if pid in ("C17", "C02") and zeroed:
            ups = [e for e in S.calls("update") if e.recv is not None and e.recv[0] == "elem"]
            ok = bool(ups) and all(z.seq < u.seq for z in zeroed for u in ups if u.loops and z.loops and u.loops[-1] is z.loops[-1])
            chk.ob("C17.R3", ok, CORE, host, "sweep-before-child-update", "carry accrued on a date is paid into the parent on the next date: the sweep precedes the child's update",
                   where=zeroed[0].where)
    # ---- the value / notional are re-recorded whenever they changed (or the date is new)
    if pid in ("C01", "C02", "C08"):
        for w in vw:
            pl = plain(w.guard)
            old_v = w.old if w.old is not None else fld(SELF, R.VALUE)
            changed = canon(("not", ("zero", sym._abs_norm(sym.to_rat(("-", old_v, w.value))))))
            ok = True
            why = "ok"
            if pl:
                if len(pl) != 1 or not (canon(pl[0][0])[0] == "or" and pl[0][1]):
                    ok, why = False, "recorded only under a conjunction: " + sym.fmt_guard(pl)[:200]
                else:
                    disj = list(canon(pl[0][0])[1:])
                    has_date = any(sym.contains(d, lambda n: n == DATE) or mentions_field(d, "now", SELF) for d in disj)
                    has_changed = any(canon(d) == changed for d in disj)
                    other = [d for d in disj if not (sym.contains(d, lambda n: n == DATE) or mentions_field(d, "now", SELF)) and not (
                        d[0] == "not" and d[1][0] == "zero" and (mentions_field(d[1], R.VALUE, SELF) or mentions_field(d[1], R.NOTIONAL, SELF)))]
                    ok = has_date and has_changed and not other
                    why = "; ".join(short(d, 100) for d in disj)
            chk.ob("C01.R4", ok, CORE, host, "value-recording-condition",
                   "the value is re-recorded whenever the date is new OR it differs from the cached one (exact zero test of old - new): never skipped under a conjunction or a wider tolerance",
                   where=w.where, expected="newpt or not is_zero(value - val) [or not is_zero(notional - notl)]", found=why, sample={"guard": sym.fmt_guard(w.guard)[:200]})
    # ---- C07: a strategy's bid/offer paid is the sum over its (updated) children
    if pid == "C07":
        bw = [w for w in S.writes(R.BIDOFFER_PAID, SELF) if own_event(w, S.fn.qual)]
        for w in bw:
            g = G(w)
            feat = sym.lit_holds(g, fld(SELF, "_bidoffer_set"), True)
            for gcase, v in children_cases(sym.restrict(w.value, g)):
                exp = drop_sums(ref_bop) if empty_children(gcase) else ref_bop
                chk.ob("C07.R2", feat and equal(v, exp), CORE, host, "strategy-bidoffer-paid", "a strategy's bid/offer paid on a date is the sum of its children's", where=w.where,
                       expected=short(exp, 200), found=short(v, 200))
    # ---- C17.R1 strategy notional
    if pid == "C17":
        nw = S.writes(R.NOTIONAL, SELF)
        chk.need(nw, "%s no longer assigns the notional value" % host)
        for w in nw:
            for g, v in children_cases(w.value):
                exp = drop_sums(ref_notl) if empty_children(g) else ref_notl
                chk.ob("C17.R1", equal(v, exp), CORE, host, "strategy-notional", "a strategy's notional is the sum of the absolute notionals of its children", where=w.where,
                       expected=short(exp, 200), found=short(v, 200), sample={"notional": short(v, 200)})
    # ---- C01.R3b freshness inside update: child update precedes the read of its value
    if pid in ("C01", "C08", "C02"):
        ups = [e for e in S.calls("update") if e.recv is not None and e.recv[0] == "elem"]
        chk.need(ups, "%s no longer updates its children" % host)
        for u in ups:
            ok = len(u.args) >= 1 and canon(u.args[0]) == canon(DATE)
            chk.ob("C01.R3b", ok, CORE, host, "child-update-date", "children are updated to the same date", where=u.where, found=short(u.args[0]) if u.args else "no date")
            if pid in ("C08", "C02") and len(u.args) >= 3:
                chk.ob("C08.R4", is_inow(u.args[2]), CORE, host, "child-update-inow", "the row index handed to children is the current one", where=u.where, found=short(u.args[2]))
    # ---- C01.R3 weights
    if pid in ("C01", "C06", "C17", "C16"):
        ww = [e for e in S.events if e.kind == "write" and e.field == R.WEIGHT and e.obj[0] == "elem"]
        chk.need(ww, "%s no longer assigns child weights" % host)
        the_notl = S.writes(R.NOTIONAL, SELF)[-1].value if S.writes(R.NOTIONAL, SELF) else None
        fi_atom = canon(fld(SELF, "_fixed_income"))
        for w in ww:
            c = w.obj
            g0 = G(w)
            cc = canon(c)
            elem_lits = [l for l in plain(w.guard) if (sym.contains(l[0], lambda n: n == c) or sym.contains(canon(l[0]), lambda n: n == cc)) and not sym.contains(l[0], lambda n: n[0] == "sum")]
            skip = canon(("and", ("fld", c, "_issec", 0), ("not", ("fld", c, R.NEEDUPDATE, 0))))
            okf = truth_equiv([(canon(_strip_all_versions(l[0])), l[1]) for l in elem_lits], ("not", skip), [("fld", c, "_issec", 0), ("fld", c, R.NEEDUPDATE, 0)])
            if pid in ("C01", "C06", "C17"):
                chk.ob("C01.R3", okf, CORE, host, "weight-loop-filter", "weights are recomputed for exactly the children whose values were recomputed (only flat, dormant securities are skipped)",
                       where=w.where, expected="skip only when c._issec and not c.%s" % R.NEEDUPDATE, found=sym.fmt_guard(elem_lits)[:200])
            # decided per accounting mode and per zero / non-zero base, whether the code branches on them or computes flags first
            for is_fi in (True, False):
                if is_fi and pid not in ("C01", "C17", "C16"):
                    continue
                if (not is_fi) and pid not in ("C01", "C06"):
                    continue
                g1 = sym.sat(tuple(g0) + ((fi_atom, is_fi),))
                if sym.inconsistent(g1):
                    continue
                base = sym.restrict(the_notl if is_fi else the_val, g1)
                numer_field = R.NOTIONAL if is_fi else R.VALUE
                zb = ("zero", sym._abs_norm(sym.to_rat(base)))
                mode = "fi" if is_fi else "mv"
                for zero_base in (True, False):
                    g = sym.sat(tuple(g1) + ((zb, zero_base),))
                    if sym.inconsistent(g):
                        continue
                    # conditions over phi values (e.g. a precomputed `base_is_zero` flag) are resolved against the scenario
                    g = G(w, extra=((fi_atom, is_fi), (zb, zero_base)))
                    if sym.inconsistent(g):
                        continue
                    vv = sym.restrict(w.value, g)
                    if zero_base:
                        ok = canon(vv) == canon(sym.ZERO)
                        chk.ob("C01.R3", ok, CORE, host, "weight-zero:%s" % mode, "weights are zero exactly when the parent's base is zero", where=w.where,
                               expected="0 under is_zero(parent base)", found=short(vv, 200))
                    else:
                        num = ("fld", c, numer_field, 1)
                        ok = equal(vv, ("/", num, base))
                        chk.ob("C01.R3", ok, CORE, host, "weight-formula:%s" % mode,
                               "a child's weight is its (notional) value divided by the parent's final (notional) value", where=w.where,
                               expected="child %s / %s (guarded against zero)" % (numer_field, short(base, 120)), found=short(vv, 240), sample={"weight": short(vv, 160)})
    # ---- rows of the strategy (C01.R4 / C03 / C07 / C08.R4)
    pairs = []
    if pid == "C01":
        pairs = [(R.VALUE, R.VALUES, "C01"), (R.NOTIONAL, R.NOTIONALS, "C01"), (R.CAPITAL, R.CASH, "C01")]
    elif pid == "C03":
        pairs = [(R.PRICE, R.PRICES, "C03"), (R.NET_FLOWS, R.FLOWS_ROWS, "C03"), (R.VALUE, R.VALUES, "C03")]  # the recurrence is stated over the recorded price, value and flow rows
    elif pid == "C07":
        pairs = [(R.LAST_FEE, R.FEES, "C07"), (R.NET_FLOWS, R.FLOWS_ROWS, "C07"), (R.CAPITAL, R.CASH, "C07")]
    elif pid == "C17":
        pairs = [(R.NOTIONAL, R.NOTIONALS, "C17"), (R.CAPITAL, R.CASH, "C17")]  # hedges and swaps move cash without moving value or notional: the cash row follows every change
    elif pid == "C16":
        # the rows of the bankruptcy date hold the post-liquidation figures (read after the liquidation, not carried over from before it)
        pairs = [(R.CAPITAL, R.CASH, "C16"), (R.VALUE, R.VALUES, "C16")]
    _strategy_rows(chk, pid, S, fi, host, R, pairs)
    if pid in ("C08", "C07", "C18"):
        # idempotence: a redundant update visits fewer children (securities gone dormant are skipped), so anything summed over the visited children may only be
        # recorded when the update records a change (new date or the value / notional moved) - recorded unconditionally, the second update overwrites it with less
        gate_atoms = [canon(a_) for w_ in S.writes(R.VALUE, SELF) if own_event(w_, S.fn.qual) for a_, p_ in lits(plain(w_.guard)) if p_ and isinstance(canon(a_), tuple) and canon(a_)[0] == "or"]
        bad = []
        for e in S.events:
            if not own_event(e, S.fn.qual) or e.kind not in ("write", "store") or (e.kind == "write" and e.obj != SELF):
                continue
            v_ = e.value

            def visited_sum(x):
                # sums in value position (the condition of a phi node is not part of the value)
                if not isinstance(x, tuple) or not x:
                    return False
                if x[0] == "sum" and len(x) == 4:
                    return any(sym.contains(a_, lambda m: m[0] == "fld" and len(m) == 4 and m[2] == R.NEEDUPDATE) for a_, _p in x[2])
                if x[0] == "ite" and len(x) == 4:
                    return visited_sum(x[2]) or visited_sum(x[3])
                if x[0] in ("fld", "param", "num", "str", "rat"):
                    return False
                return any(visited_sum(y) for y in x[1:])
            if not isinstance(v_, tuple) or not visited_sum(v_):
                continue
            if any(sym.lit_holds(G(e), ga, True) for ga in gate_atoms):
                continue
            # recorded also when the gate is closed: what is recorded THEN must not depend on the visited children
            for ga in gate_atoms:
                g_closed = sym.sat(tuple(G(e)) + ((ga, False),))
                if not sym.inconsistent(g_closed) and visited_sum(sym.restrict(v_, g_closed)):
                    bad.append(e)
                    break
        chk.ob("C08.R2", not bad, CORE, host, "visited-children-sums-only-under-the-gate",
               "what update sums over the children it visits (dormant securities are skipped) is recorded only when it records a change: outside that gate a redundant "
               "update would overwrite it with the smaller sum", where=bad[0].where if bad else fi.where, found="; ".join(e.where for e in bad)[:160])
        # a quantity flushed out of the children on the first update of a date (the sweep: summed under the new-date literal, then zeroed at the source) exists only
        # in that call: unless it is recorded together with the cash it was added to, it may only be written where the new-date literal holds - any later update of
        # the same date would overwrite it with the empty sum
        npt = canon(newpt)

        def flushed_only(x):
            # a first-update-only sum in value position that is not accompanied by the strategy's own cash (which has absorbed it)
            if not isinstance(x, tuple) or not x:
                return False
            if x[0] == "sum" and len(x) == 4:
                return any(p_ and canon(a_) == npt for a_, p_ in x[2]) and sym.contains(x[3], lambda m: m[0] == "fld" and len(m) == 4 and m[2] == R.CAPITAL)
            if x[0] == "ite" and len(x) == 4:
                return flushed_only(x[2]) or flushed_only(x[3])
            if x[0] in ("fld", "param", "num", "str", "rat"):
                return False
            return any(flushed_only(y) for y in x[1:])

        bad = []
        for e in S.events:
            if not own_event(e, S.fn.qual) or e.kind not in ("write", "store") or (e.kind == "write" and e.obj != SELF):
                continue
            v_ = e.value
            if not isinstance(v_, tuple) or not flushed_only(v_) or sym.contains(v_, lambda m: m[0] == "fld" and len(m) == 4 and m[1] == SELF and m[2] == R.CAPITAL):
                continue
            g_rep = sym.sat(tuple(G(e)) + ((npt, False),))
            if not sym.inconsistent(g_rep):
                bad.append(e)
        chk.ob("C08.R2", not bad, CORE, host, "swept-amount-recorded-only-on-the-first-update",
               "the amount swept out of the children exists only in the first update of a date (the source is zeroed): recorded on its own it is written only under the "
               "new-date literal, or a later update of the same date overwrites it with nothing", where=bad[0].where if bad else fi.where,
               found="; ".join("%s under %s" % (e.where, sym.fmt_guard(plain(e.guard))[:80]) for e in bad)[:300])
    # ---- C03 / C17 index formulas
    if pid in ("C03", "C17", "C10", "C08"):
        _index_rules(chk, pid, S, fi, host, R)
    # ---- C03.R2 / C08.R1 / C07.R3: snapshot and reset set under the date-change literal
    if pid in ("C03", "C08", "C07", "C17"):
        _reset_rules(chk, pid, S, fi, host, R)
    # ---- C16.R1 bankruptcy
    if pid in ("C16", "C08"):
        _bankruptcy(chk, pid, S, fi, host, R, the_val)
    # ---- C09 shadow stepping and publication
    if pid in ("C09", "C19", "C08", "C10"):
        _paper_rules(chk, "C19" if pid == "C10" else pid, S, fi, host, R)
    # ---- stale flag resolved
    if pid in ("C08",):
        w = [e for e in S.writes(R.STALE) if canon(e.value) == canon(sym.FALSE)]
        ok = bool(w) and not plain(w[0].guard)
        chk.ob("C08.R3", ok, CORE, host, "stale-cleared", "an update clears the pending-change flag", where=fi.where)


def _consistent(g1, g2):
    s = set((canon(a), p) for a, p in g1)
    for a, p in g2:
        if (canon(a), not p) in s:
            return False
    return True


def _strategy_rows(chk, pid, S, fi, host, R, pairs):
    stores = [(e, hist_store(e)) for e in S.events if hist_store(e)]
    if pid in ("C08",):
        for e, (ser, idx, val, aug) in stores:
            sn = series_name(ser)
            chk.ob("C08.R4", is_inow(idx, guard=e.guard), CORE, host, "row-index:%s" % sn, "history rows are written only at the current index", where=e.where,
                   expected="index inow / get_loc(date) / 0 on the first update", found=short(idx), sample={"series": sn, "index": short(idx)})
            if aug is not None:
                chk.ob("C08.R2", False, CORE, host, "non-idempotent-row:%s" % sn, "history rows are assigned, not accumulated, so that a repeated update is idempotent", where=e.where)
    for field, series, owner in pairs:
        cands = [(e, hs) for e, hs in stores if series_name(hs[0]) == series]
        if not cands:
            chk.ob("C01.R4", False, CORE, host, "row:%s" % series, "the %s row must be recorded by update" % series, where=fi.where, found="no store into %s" % series)
            continue
        wf = S.writes(field, SELF)
        for e, (ser, idx, val, aug) in cands:
            # the row is written from the field's value at that point
            ok = aug is None and equal(val, cur(e, SELF, field)) and is_inow(idx, guard=e.guard)
            chk.ob("C01.R4", ok, CORE, host, "row:%s" % series, "the %s row must be written from the current %s" % (series, field), where=e.where,
                   expected=short(cur(e, SELF, field), 200), found=short(val, 200), sample={"series": series, "field": field})
        # every write of the field inside update is followed by a row store on the same paths
        for w in wf:
            if not own_event(w, S.fn.qual):
                continue
            later = [e for e, hs in cands if e.seq > w.seq and guard_subset([l for l in e.guard if not _feature_flag(l)], w.guard)]
            chk.ob("C01.R4", bool(later), CORE, host, "row-after-write:%s" % series, "every change of %s in update is followed by recording its row" % field, where=w.where,
                   expected="store into %s after the assignment, on the same paths" % series, found="no such store")
        # cash / fees / flows rows are unconditional (they change without the value changing)
        if field in (R.CAPITAL, R.LAST_FEE, R.NET_FLOWS):
            ok = any(not plain(e.guard) for e, hs in cands)
            chk.ob("C07.R3", ok, CORE, host, "row-unconditional:%s" % series, "the %s row is rewritten on every update (it changes without the value changing)" % series,
                   where=cands[-1][0].where, expected="unconditional store", found=sym.fmt_guard(cands[-1][0].guard))


def zero_known(gg, expr):
    """True / False when the literal set says is_zero(expr) / not is_zero(expr), else None. Besides the direct look-up, the zero tests in gg are compared with
    `expr` after both have been restricted by gg (a test made on a value that carries an earlier branch of the function in it)."""
    try:
        target = sym._abs_norm(sym.to_rat(sym.restrict(expr, gg)))
    except Exception:
        return None
    for pol in (True, False):
        if sym.lit_holds(gg, ("zero", target), pol):
            return pol
    for a, p in list(gg):
        if isinstance(a, tuple) and len(a) == 2 and a[0] == "zero":
            try:
                if sym._abs_norm(sym.to_rat(sym.restrict(a[1], gg))) == target:
                    return p
            except Exception:
                continue
    return None


def _index_rules(chk, pid, S, fi, host, R):
    fi_atom = canon(fld(SELF, "_fixed_income"))
    pw = [w for w in S.writes(R.PRICE, SELF) if not has_lit(w.guard, fld(SELF, "_paper_trade"), True)]
    chk.need(pw, "%s no longer computes the price index" % host)
    last_names = _last_fields(S, R)
    LP, LV, LN = last_names.get(R.PRICE), last_names.get(R.VALUE), last_names.get(R.NOTIONAL)
    chk.need(LP and LV, "%s no longer snapshots the last price / last value on a date change" % host)
    seen = {"mv": 0, "fi": 0}
    for w, mode_fi in [(w, m) for w in pw for m in (True, False)]:
        # one scenario per kind of strategy: the write may sit in the branch of that kind or after the branches have joined
        g = lits(w.guard)
        if sym.lit_holds(g, fi_atom, not mode_fi):
            continue
        mode = [(fi_atom, mode_fi)]
        is_fi, not_fi = mode_fi, not mode_fi
        V = cur(w, SELF, R.VALUE)
        lp, lv, nf = cur(w, SELF, LP), cur(w, SELF, LV), cur(w, SELF, R.NET_FLOWS)
        base = ("+", lv, nf)
        if not_fi and pid == "C03":
            seen["mv"] += 1
            for gv, v, raws in sym.split_cases(sym.restrict(w.value, sym.sat(tuple(G(w)) + tuple(mode))), limit=12, raw=True):
                gg = GX(w, tuple(gv) + tuple(mode), raws)
                if sym.inconsistent(gg):
                    continue
                rr = lambda x: sym.restrict(x, gg)
                v, lp, V, base = rr(v), rr(cur(w, SELF, LP)), rr(cur(w, SELF, R.VALUE)), rr(("+", cur(w, SELF, LV), cur(w, SELF, R.NET_FLOWS)))
                zb = zero_known(gg, base)
                zero_base, nz_base = zb is True, zb is False
                if nz_base:
                    ok = equal(v, ("/", ("*", lp, V), base))
                    exp = "last_price * value / (last_value + net_flows)"
                    key = "index-formula:mv"
                elif zero_base:
                    ok = equal(v, lp) and zero_known(gg, V) is True
                    exp = "last_price (zero return) when base and value are both zero"
                    key = "index-formula:mv-zero-base"
                else:
                    ok, exp, key = False, "division guarded by a zero test of last_value + net_flows", "index-formula:mv-unguarded"
                chk.ob("C03.R1", ok, CORE, host, key, "price[t] = price[t-1] * value[t] / (value[t-1] + net flows[t])", where=w.where, expected=exp, found=short(v, 260),
                       sample={"price": short(v, 200), "guard": sym.fmt_guard(gv)})
        if is_fi and pid == "C17":
            seen["fi"] += 1
            chk.need(LN, "%s no longer snapshots the last notional value" % host)
            ln, N = cur(w, SELF, LN), cur(w, SELF, R.NOTIONAL)
            pnl = ("-", V, base)
            par = sym.num(chk.prog.const_value(CORE, "PAR") or 100.0)
            for gv, v, raws in sym.split_cases(sym.restrict(w.value, sym.sat(tuple(G(w)) + tuple(mode))), limit=12, raw=True):
                gg = GX(w, tuple(gv) + tuple(mode), raws)
                if sym.inconsistent(gg):
                    continue
                rr = lambda x: sym.restrict(x, gg)
                v, lp, V, ln, N = rr(v), rr(cur(w, SELF, LP)), rr(cur(w, SELF, R.VALUE)), rr(cur(w, SELF, LN)), rr(cur(w, SELF, R.NOTIONAL))
                base = rr(("+", cur(w, SELF, LV), cur(w, SELF, R.NET_FLOWS)))
                pnl = ("-", V, base)
                if zero_known(gg, ln) is False:
                    ok, exp, key = equal(v, ("+", lp, ("/", ("*", par, pnl), ln))), "last_price + PAR * pnl / last_notional", "index-formula:fi"
                elif zero_known(gg, N) is False:
                    ok, exp, key = equal(v, ("+", lp, ("/", ("*", par, pnl), N))), "last_price + PAR * pnl / notional (fallback)", "index-formula:fi-fallback"
                else:
                    ok = equal(v, lp) and zero_known(gg, pnl) is True
                    exp, key = "last_price when notional and pnl are zero", "index-formula:fi-zero"
                chk.ob("C17.R4", ok, CORE, host, key, "a fixed-income index moves additively by PAR x (change in value net of flows) / notional", where=w.where, expected=exp,
                       found=short(v, 260), sample={"price": short(v, 200)})
    if pid in ("C08", "C17", "C03"):
        # the index is recomputed whenever the update records anything: in particular when only the notional moved (the fixed-income fallback divides by it), so that
        # a redundant update or a read between two trades cannot change the final index
        wn = [w for w in S.writes(R.NOTIONAL, SELF) if own_event(w, S.fn.qual)]
        gate = None
        for w in wn:
            for a_, p_ in lits(plain(w.guard)):
                ca_ = canon(a_)
                if p_ and isinstance(ca_, tuple) and ca_ and ca_[0] == "or" and any(mentions_field(d_, R.NOTIONAL, SELF) for d_ in ca_[1:]):
                    gate = ca_
        if gate is not None:
            scen = []
            for d_ in gate[1:]:
                holds = mentions_field(d_, R.NOTIONAL, SELF)
                if isinstance(d_, tuple) and d_ and d_[0] == "not":
                    scen.append((d_[1], not holds))
                else:
                    scen.append((d_, holds))
            for mode_fi in (True, False):
                gs = sym.sat(tuple(scen) + ((fi_atom, mode_fi),))
                if sym.inconsistent(gs):
                    continue
                covered = [w for w in pw if not sym.inconsistent(sym.sat(tuple(gs) + tuple(lits(plain(w.guard)))))]
                covered += [e for e in S.raises if not sym.inconsistent(sym.sat(tuple(gs) + tuple(lits(plain(e.guard)))))]
                chk.ob("C08.R2", bool(covered), CORE, host, "index-recomputed-with-the-rows:%s" % ("fi" if mode_fi else "mv"),
                       "whenever update records new value / notional rows it also recomputes the index - also when only the notional moved", where=fi.where,
                       expected="a price assignment on the path where only the notional changed", found="no price assignment consistent with that path")
    if pid == "C03":
        chk.ob("C03.R1", seen["mv"] > 0, CORE, host, "index-present:mv", "the market-value index recurrence must be present", where=fi.where)
    if pid == "C17":
        chk.ob("C17.R4", seen["fi"] > 0, CORE, host, "index-present:fi", "the additive fixed-income index must be present", where=fi.where)
    # ---- C10.R1: return on a zero base raises before the price is written
    if pid == "C10":
        raises = [e for e in S.raises if e.exc == "ZeroDivisionError" or any(a[0] == "zero" for a, p in e.guard)]
        for branch, want_fi in (("mv", False), ("fi", True)):
            rs = [e for e in raises if sym.lit_holds(lits(e.guard), fi_atom, want_fi)]
            ok = False
            for e in rs:
                g = lits(e.guard)
                V = cur(e, SELF, R.VALUE)
                lv, nf = cur(e, SELF, LV), cur(e, SELF, R.NET_FLOWS)
                base = ("+", lv, nf)
                if not want_fi:
                    ok = ok or (sym.lit_holds(g, ("zero", sym._abs_norm(sym.to_rat(base))), True) and sym.lit_holds(g, ("zero", sym._abs_norm(sym.to_rat(V))), False))
                else:
                    pnl = ("-", V, base)
                    ok = ok or (sym.lit_holds(g, ("zero", sym._abs_norm(sym.to_rat(pnl))), False) and any(a[0] == "zero" and p for a, p in g))
            chk.ob("C10.R1", ok, CORE, host, "guard:zero-base:%s" % branch, "a return on a zero base must raise instead of recording a wrong index", where=fi.where,
                   expected="raise under zero base and non-zero %s" % ("pnl" if want_fi else "value"), found="%d raise sites in this branch" % len(rs))


def _last_fields(S, R):
    """LAST(x): the field assigned from role x under the date-change guard."""
    out = {}
    for w in S.writes(None, SELF):
        v = w.value
        if v[0] == "fld" and canon(v[1]) == canon(SELF) and v[2] in (R.PRICE, R.VALUE, R.NOTIONAL) and v[3] == 0 and w.field != v[2]:
            out.setdefault(v[2], w.field)
    return out


def _reset_rules(chk, pid, S, fi, host, R):
    last = _last_fields(S, R)
    date_changed = canon(("cmp", "==", DATE, fld(SELF, "now")))
    now_zero = canon(("cmp", "==", fld(SELF, "now"), sym.ZERO))
    wanted = []
    if pid in ("C03", "C08"):
        wanted += [(last.get(R.PRICE), "snapshot", R.PRICE), (last.get(R.VALUE), "snapshot", R.VALUE), (R.NET_FLOWS, "zero", None)]
    if pid in ("C07", "C08"):
        wanted += [(R.LAST_FEE, "zero", None)]
        if pid == "C07":
            wanted += [(R.NET_FLOWS, "zero", None)]
    if pid in ("C17", "C08"):
        wanted += [(last.get(R.NOTIONAL), "snapshot", R.NOTIONAL)]
    seen = set()
    for field, kind, src in wanted:
        if (field, kind) in seen:
            continue
        seen.add((field, kind))
        if field is None:
            chk.ob("C03.R2", False, CORE, host, "reset-missing:last(%s)" % src, "the previous %s must be snapshotted when the date changes" % src, where=fi.where)
            continue
        ws = [w for w in S.writes(field, SELF) if own_event(w, S.fn.qual)]
        good = []
        for w in ws:
            g = lits(w.guard)
            under_change = sym.lit_holds(g, date_changed, False)
            if kind == "zero":
                val_ok = canon(w.value) == canon(sym.ZERO)
            else:
                val_ok = is_entry(w.value, SELF, src)
            if val_ok:
                good.append(w)
                chk.ob("C03.R2", under_change, CORE, host, "reset-guard:%s" % field,
                       "%s is %s only when the date changes (evaluated against the pre-update clock)" % (field, "reset" if kind == "zero" else "snapshotted"), where=w.where,
                       expected="under date != now (entry value of now)", found=sym.fmt_guard(w.guard), sample={"field": field, "guard": sym.fmt_guard(w.guard)})
            else:
                chk.ob("C03.R2", False, CORE, host, "reset-value:%s" % field, "unexpected assignment to %s inside update" % field, where=w.where,
                       expected="0" if kind == "zero" else "entry value of %s" % src, found=short(w.value))
        chk.ob("C03.R2", bool(good), CORE, host, "reset-present:%s" % field, "%s must be %s when the date changes" % (field, "reset" if kind == "zero" else "snapshotted"),
               where=fi.where)
        # covers every date change: the guard is exactly `now != 0 and date != now` (the first update has nothing to reset)
        for w in good:
            extra = [l for l in lits(plain(w.guard)) if l not in ((date_changed, False), (now_zero, False)) and l != (canon(("zero", sym._abs_norm(sym.to_rat(fld(SELF, "now"))))), False)]
            if extra:
                # decided on the truth table of the two clock atoms: the guard must be `date != now and now != 0`, however it is spelled
                nz = canon(("zero", sym._abs_norm(sym.to_rat(fld(SELF, "now")))))
                same = True
                for b_eq in (True, False):
                    for b_z in (True, False):
                        g_ = sym.sat(((date_changed, b_eq), (nz, b_z), (now_zero, b_z)))
                        if sym.inconsistent(g_):
                            continue
                        val = True
                        for a_, p_ in lits(plain(w.guard)):
                            if sym.lit_holds(g_, a_, p_):
                                continue
                            val = False if sym.lit_holds(g_, a_, not p_) else None
                            break
                        if val is None or val != ((not b_eq) and (not b_z)):
                            same = False
                if same:
                    extra = []
            chk.ob("C03.R2", not extra, CORE, host, "reset-on-every-date-change:%s" % field, "%s is handled on every date change, not only on some" % field, where=w.where,
                   expected="no further condition", found=sym.fmt_guard(extra))
    # the clock moves after the test
    nw = [w for w in S.writes("now", SELF) if own_event(w, S.fn.qual)]
    if pid in ("C03", "C08"):
        ok = bool(nw) and all(canon(w.value) == canon(DATE) for w in nw)
        chk.ob("C08.R1", ok, CORE, host, "clock-set", "update moves the node's clock to the date", where=fi.where)


def _bankruptcy(chk, pid, S, fi, host, R, the_val):
    bw = S.writes("bankrupt", SELF)
    if pid == "C16":
        setters = [w for w in bw if canon(w.value) == canon(sym.TRUE)]
        chk.ob("C16.R1", len(setters) == 1, CORE, host, "bankrupt-single-site", "bankruptcy is declared at exactly one site", where=fi.where, found="%d sites" % len(setters))
        for w in setters:
            g = lits(w.guard)
            root_is_self = any(p and a[0] in ("cmp", "eq", "is") and mentions_field(a, "root", SELF) for a, p in g)
            not_bk = sym.lit_holds(g, fld(SELF, "bankrupt"), False)
            not_fi = sym.lit_holds(g, fld(SELF, "_fixed_income"), False)
            # sign region of val: some literal must say val < 0 (or <= 0 with not zero)
            gw = G(w)
            v = sym.restrict(the_val, gw)
            lt = sym.lit_holds(gw, canon(("cmp", "<", v, sym.ZERO)), True)
            le_nz = sym.lit_holds(gw, canon(("cmp", "<=", v, sym.ZERO)), True) and sym.lit_holds(gw, ("zero", sym._abs_norm(sym.to_rat(v))), False)
            neg = lt or le_nz
            extra = [l for l in plain(w.guard) if not _bk_known(l, the_val)]
            chk.ob("C16.R1", root_is_self, CORE, host, "bankrupt:root-only", "only the root strategy can be declared bankrupt", where=w.where, found=sym.fmt_guard(w.guard)[:200])
            chk.ob("C16.R1", not_fi, CORE, host, "bankrupt:not-fixed-income", "fixed-income strategies are never declared bankrupt", where=w.where)
            chk.ob("C16.R1", not_bk, CORE, host, "bankrupt:once", "bankruptcy is declared once (not while already bankrupt)", where=w.where)
            chk.ob("C16.R1", neg, CORE, host, "bankrupt:negative-value", "bankruptcy is declared exactly when the value computed in this update is negative", where=w.where,
                   expected="val < 0", found=sym.fmt_guard(w.guard)[:300], sample={"guard": sym.fmt_guard(w.guard)[:200]})
            chk.ob("C16.R1", not extra, CORE, host, "bankrupt:no-extra-condition", "a negative root value is always flagged (no further condition)", where=w.where,
                   found=sym.fmt_guard(extra)[:200])
            # (either order: the liquidation may be pushed down before or after the flag is raised - what depends on that order is checked where the flag is read)
            fl = [c for c in S.calls("flatten") if (guard_subset(c.guard, w.guard) if c.seq > w.seq else guard_subset(w.guard, c.guard)) and c.recv == SELF]
            chk.ob("C16.R2", bool(fl), CORE, host, "bankrupt:flatten", "all positions are closed on the bankruptcy date", where=w.where, expected="self.flatten() on the same path")
        others = [w for w in bw if canon(w.value) != canon(sym.TRUE)]
        chk.ob("C16.R1", not others, CORE, host, "bankrupt-not-cleared-in-update", "update never clears the bankruptcy flag (terminal)", where=fi.where)
    if pid in ("C08", "C01", "C16"):
        clears = [w for w in S.events if w.kind == "write" and w.field == R.STALE and canon(w.value) == canon(sym.FALSE) and own_event(w, S.fn.qual)]
        work = [e for e in S.events if e.kind == "call" and e.name in ("update", "flatten", "run") and e.recv is not None]
        first_work = min([e.seq for e in work] or [10 ** 9])
        late = [w for w in clears if w.seq > first_work]
        chk.ob("C08.R2" if pid != "C16" else "C16.R2", not late, CORE, host, "stale-cleared-only-at-entry",
               "update marks the tree fresh once, before it starts: clearing the flag later would discard the staleness raised by what update itself did (the liquidation of a bankrupt root)",
               where=late[0].where if late else fi.where, expected="root.stale = False only as the first step", found="%d later clears" % len(late))
    if pid == "C08":
        for c in S.calls("flatten"):
            ok = has_lit(c.guard, fld(SELF, "bankrupt"), False)
            chk.ob("C08.R2", ok, CORE, host, "flatten-once", "the liquidation inside update happens once, not on every repeated update", where=c.where)


def _bk_known(l, the_val):
    a, p = l
    if mentions_field(a, "root", SELF) or mentions_field(a, "bankrupt", SELF) or mentions_field(a, "_fixed_income", SELF):
        return True
    if a[0] in ("cmp", "zero"):
        return True
    return False


def _paper_rules(chk, pid, S, fi, host, R):
    pt = canon(fld(SELF, "_paper_trade"))
    date_changed = canon(("cmp", "==", DATE, fld(SELF, "now")))
    paper_calls = [e for e in S.events if e.kind == "call" and e.recv is not None and e.recv[0] == "fld" and e.recv[2] == "_paper"]
    if pid in ("C09", "C08"):
        names = [e.name for e in paper_calls]
        if pid == "C09":
            chk.ob("C09.R3", names == ["update", "run", "update"], CORE, host, "shadow-stepping-sequence",
                   "the shadow copy is stepped update -> run -> update, like the stand-alone date loop", where=fi.where, expected="update, run, update", found=", ".join(names),
                   sample={"sequence": names})
            for e in paper_calls:
                if e.name == "update":
                    ok = e.args and canon(e.args[0]) == canon(DATE)
                    chk.ob("C09.R3", ok, CORE, host, "shadow-step-date", "the shadow copy is stepped to the same date", where=e.where)
        for e in paper_calls:
            g = lits(e.guard)
            newpt_ok = any(p and sym.contains(a, lambda n: n == DATE) for a, p in g) or sym.lit_holds(g, date_changed, False)
            extra = [l for l in lits(plain(e.guard)) if l != (pt, True) and not sym.contains(l[0], lambda n: n == DATE)]
            chk.ob("C09.R3" if pid == "C09" else "C08.R2", newpt_ok, CORE, host, "shadow-step-only-on-new-date:%s" % e.name,
                   "the shadow copy is stepped once per date (only when the date is new)", where=e.where, found=sym.fmt_guard(e.guard))
            if pid == "C09":
                chk.ob("C09.R3", not extra, CORE, host, "shadow-step-unconditional:%s" % e.name, "the shadow copy is stepped on every new date, whatever the live tree's state",
                       where=e.where, found=sym.fmt_guard(extra))
    if pid == "C09":
        # last writer of the price when paper trading
        for st, _ in S.exits:
            pf = final_value(st, SELF, R.PRICE)
            ok = False
            for g, leaf in sym.cases(pf):
                gg = lits(tuple(st.guard) + tuple(g))
                if sym.lit_holds(gg, pt, True):
                    ok = leaf[0] == "fld" and leaf[2] == R.PRICE and leaf[1][0] == "fld" and leaf[1][2] == "_paper"
                    chk.ob("C09.R4", ok, CORE, host, "shadow-price-last-writer", "a sub-strategy's price is its shadow copy's price", where=fi.where, expected="self._paper.price",
                           found=short(leaf), sample={"price": short(leaf)})
            # scenario: the node is a paper-traded sub-strategy. The last price-row store on that path happens on every update and records the shadow's price
            stores = [(e, hist_store(e)) for e in S.events if hist_store(e) and series_name(hist_store(e)[0]) == R.PRICES
                      and not sym.inconsistent(sym.sat(tuple(G(e)) + ((pt, True),)))]
            ok = False
            if stores:
                e_, hs_ = max(stores, key=lambda x: x[0].seq)
                g_ = sym.sat(tuple(G(e_)) + ((pt, True),))
                v_ = sym.restrict(hs_[2], g_)
                is_shadow = v_[0] == "fld" and v_[2] == R.PRICE and v_[1][0] == "fld" and v_[1][2] == "_paper"
                always = not [l for l in lits(plain(e_.guard)) if l != (canon(pt), True) and l != (pt, True)]
                ok = is_shadow and always and is_inow(hs_[1], guard=e_.guard)
            chk.ob("C09.R4", ok, CORE, host, "shadow-price-row", "the shadow price is also what is recorded in the price row", where=fi.where)
    if pid in ("C09", "C19"):
        pubs = [e for e in S.events if e.kind == "store" and e.base[0] == "attr" and e.base[2] == "loc" and e.base[1][0] == "fld" and e.base[1][2] == "_universe"]
        ok = False
        for e in pubs:
            idx = e.index
            if idx[0] == "tuple" and len(idx) == 3 and canon(idx[1]) == canon(DATE) and idx[2][0] == "elem" and idx[2][1][0] == "fld" and idx[2][1][2] == "_strat_children":
                v = e.value
                ok = (v[0] == "fld" and v[2] == R.PRICE and v[1][0] == "sub" and v[1][1][0] == "fld" and v[1][1][2] == "children" and canon(v[1][2]) == canon(idx[2]))
                extra = [l for l in plain(e.guard) if not mentions_field(l[0], "_has_strat_children", SELF)]
                ok = ok and not extra
        chk.ob("C09.R5", ok, CORE, host, "publish-child-price", "on every update each sub-strategy's price is published into the parent's universe at the current date",
               where=fi.where, expected="_universe.loc[date, c] = children[c].price for c in _strat_children", found="%d publication sites" % len(pubs))


# ------------------------------------------------------------------------------------------------
# Mutators: outlay / transact / adjust / allocate, ownership of primary state, deferred updates

OUTLAY_REF = '''
def ref(self, q, p=None):
    if p is None:
        fee = self.parent.commission_fn(q, self._price * self.multiplier)
        bidoffer = abs(q) * 0.5 * self._bidoffer * self.multiplier
    else:
        fee = self.parent.commission_fn(q, p * self.multiplier)
        bidoffer = q * (p - self._price) * self.multiplier
    outlay = q * self._price * self.multiplier + bidoffer
    return outlay + fee, outlay, fee, bidoffer
'''


def bound_args(ev, prog):
    """param name -> value for a call event, through the first resolvable callee."""
    out = dict(ev.kwargs or {})
    callee = (ev.callee or [None])[0]
    if callee is None:
        return out
    params = list(callee.params)
    if callee.cls is not None and params and params[0] == "self":
        params = params[1:]
    for p, a in zip(params, ev.args or []):
        out.setdefault(p, a)
    for p in params:
        if p not in out and p in callee.defaults:
            try:
                out[p] = _const(callee.defaults[p])
            except Exception:
                pass
    return out


def _const(node):
    v = ast.literal_eval(node)
    if v is None:
        return sym.NONE
    if isinstance(v, bool):
        return ("bool", v)
    return sym.num(v)


def outlay_rules(chk, pid):
    """C07.R1 (also C02, C05): the cash needed for a trade is notional + half spread (or custom-price difference) + commission."""
    R = Roles(chk.prog)
    fi = chk.prog.func(CORE, "SecurityBase", "outlay")
    S = chk.summary(CORE, "SecurityBase", "outlay", host="SecurityBase")
    src = OUTLAY_REF.replace("_price", R.SPRICE).replace("_bidoffer", R.BIDOFFER)
    ref = chk.ref(src, "SecurityBase")
    host = "SecurityBase.outlay"
    chk.site()
    chk.need(fi.params[:2] == ["self", "q"] and "p" in fi.params, "SecurityBase.outlay(q, p=None) changed its signature")
    names = ["full outlay", "outlay", "fee", "bid/offer cost"]
    n = 0
    code_cases, ref_cases = S.return_cases(), ref.return_cases()
    if pid == "C09":
        code_cases, ref_cases = [], []
    pnone = ("isnone", ("param", "p"))
    for pol in (() if pid == "C09" else (True,) if pid == "C05" else (True, False)):
        gg = sym.sat([(pnone, pol)])
        cc = [sym.restrict(v, gg) for g, v in code_cases if _consistent(gg, g)]
        rr = [sym.restrict(v, gg) for g, v in ref_cases if _consistent(gg, g)]
        if len(cc) != 1 or len(rr) != 1 or not (cc[0][0] == "tuple" and len(cc[0]) == 5):
            chk.ob("C07.R1", False, CORE, host, "outlay-shape", "outlay returns (full outlay, outlay, fee, bid/offer cost)", where=fi.where, found=short(cc[0]) if cc else "no return")
            continue
        v, rv = cc[0], rr[0]
        for i in range(4):
            n += 1
            if pid in ("C02",) and i in (0, 2):
                # the fee formula is C07's; value conservation / sizing only need internal consistency: full = outlay + fee
                if i == 0:
                    chk.ob("C07.R1", equal(v[1], ("+", v[2], v[3])), CORE, host, "outlay-consistent:%s" % ("market" if pol else "custom-price"),
                           "the full outlay is the outlay plus the fee", where=fi.where, expected="outlay + fee", found=short(v[1], 200))
                continue
            ok = equal(v[1 + i], rv[1 + i])
            chk.ob("C07.R1", ok, CORE, host, "outlay-component:%s:%s" % (names[i], "market" if pol else "custom-price"),
                   "each trade moves q x price x multiplier plus the half-spread (or custom-price difference) as outlay and commission(q, price x multiplier) as fee",
                   where=fi.where, expected=short(rv[1 + i], 200), found=short(v[1 + i], 200), sample={"component": names[i], "value": short(v[1 + i], 160)})
    if pid != "C09":
        chk.need(n >= (4 if pid == "C05" else 8), "SecurityBase.outlay: could not align its return cases with the reference")
    # purity (C05.R8 / C07.R6)
    ws = [e for e in S.events if e.kind in ("write", "store") or (e.kind == "call" and e.extra == "mutate")]
    if pid != "C09":
      chk.ob("C07.R6", not ws, CORE, host, "outlay-pure", "probing the cost of a trade books nothing", where=fi.where, found="; ".join(repr(e)[:80] for e in ws[:3]))
    # commission resolves to the parent's commission function (C07.R5)
    if pid in ("C07", "C05", "C09"):
        C = chk.summary(CORE, "SecurityBase", "commission", host="SecurityBase")
        okc = False
        for g, v in C.return_cases():
            okc = v[0] == "fcall" and v[1][0] == "fld" and v[1][2] == "parent" and canon(v[1][1]) == canon(SELF) and len(v[3]) == 2 and v[3][0] == ("param", "q") and v[3][1] == ("param", "p")
        chk.ob("C07.R5", okc, CORE, "SecurityBase.commission", "commission-from-own-parent", "the commission of a trade is the security's own parent's commission function at (q, p)",
               where=C.fn.where)


def _marks_parents_tree(S, R, u):
    """the other spelling of handing the flag on: the parent is told not to mark (a constant False) and the trade marks the PARENT's tree itself,
    exactly under the caller's flag, on every normal exit"""
    if u is None or canon(u) != canon(sym.FALSE):
        return False
    upd = canon(("param", "update"))
    proot = fld(fld(SELF, "parent"), "root")
    adj = S.calls("adjust")
    if not adj:
        return False
    booked = [l for l in plain(adj[-1].guard)]
    exits = [st for st, v in S.exits if all(sym.lit_holds(sym.sat(G(st)), l[0], l[1]) for l in booked)]  # the exits of a trade that was booked
    if not exits:
        return False
    for st in exits:
        g0 = tuple(G(st))
        gu = sym.sat(g0 + ((upd, True),))
        if sym.inconsistent(gu):
            return False
        sv = sym.restrict(final_value(st, proot, R.STALE), gu)
        if not all(canon(leaf) == canon(sym.TRUE) for _, leaf in sym.cases(sv)):
            return False
    for e in S.events:
        if e.kind == "write" and e.field == R.STALE and not sym.lit_holds(sym.sat(e.guard), upd, True):
            return False  # marked although the caller deferred the update
    return True


def transact_rules(chk, pid):
    public_signature(chk, "SecurityBase", "transact")
    public_signature(chk, "SecurityBase", "allocate")
    R = Roles(chk.prog)
    fi = chk.prog.func(CORE, "SecurityBase", "transact")
    S = chk.summary(CORE, "SecurityBase", "transact", host="SecurityBase", no_inline=("update",))
    host = "SecurityBase.transact"
    chk.site()
    q = ("param", "q")
    price = ("param", "price")
    outs = [e for e in S.calls("outlay") if e.recv == SELF]
    adj = [e for e in S.calls("adjust")]
    chk.need(outs, "%s no longer prices the trade through outlay()" % host)
    chk.need(adj, "%s no longer passes the trade's cash to the parent through adjust()" % host)
    o = outs[-1]
    ob = bound_args(o, chk.prog)
    res = o.result
    ok_args = canon(ob.get("q", sym.NONE)) == canon(q) and canon(ob.get("p", sym.NONE)) == canon(price)
    if pid in ("C02", "C07"):
        chk.ob("C02.R1", ok_args, CORE, host, "outlay-args", "the booked cost is the cost of exactly this trade (q at the given price)", where=o.where,
               expected="outlay(q, p=price)", found="outlay(%s, p=%s)" % (short(ob.get("q", sym.NONE)), short(ob.get("p", sym.NONE))))
    comps = None
    if res is not None:
        cs = sym.cases(res)
        if all(v[0] == "tuple" and len(v) == 5 for _, v in cs):
            comps = [tuple((g, v[1 + i]) for g, v in cs) for i in range(4)]

    def comp(i, gg):
        for g, v in comps[i]:
            if _consistent(gg, g):
                return sym.restrict(v, gg)
        return None

    chk.need(comps is not None, "%s: outlay() result is not a 4-tuple" % host)
    if pid in ("C03", "C07"):
        chk.ob("C03.R4" if pid == "C03" else "C07.R2", len(adj) == 1, CORE, host, "single-adjust", "a trade moves the parent's cash in one non-flow adjustment carrying the fee",
               where=fi.where, expected="one parent.adjust call", found="%d calls" % len(adj))
    if pid in ("C01", "C02") and len(adj) > 1:
        # several adjustments: together they must still move minus the full outlay
        gg_ = G(adj[-1])
        tot = sym.ZERO
        for a_ in adj:
            tot = ("+", tot, bound_args(a_, chk.prog).get("amount", sym.ZERO))
        chk.ob("C02.R1", comp(0, gg_) is not None and equal(sym.restrict(tot, gg_), ("neg", comp(0, gg_))), CORE, host, "adjust-amount-total",
               "the parent's cash moves by minus the full outlay in total", where=fi.where, found=short(tot, 200))
        adj_for_amount = []
    else:
        adj_for_amount = adj
    if pid == "C09" and adj:
        u_ = bound_args(adj[-1], chk.prog).get("update")
        chk.ob("C01.R6", (u_ is not None and canon(u_) == canon(("param", "update"))) or _marks_parents_tree(S, R, u_), CORE, host, "adjust-update-flag",
               "the caller's update flag is handed to the parent (the parent marks the tree it belongs to: inside a shadow copy the security's own root pointer may be stale)", where=adj[-1].where)
    for a in adj:
        gg = G(a)
        ab = bound_args(a, chk.prog)
        full, out, fee, bo = comp(0, gg), comp(1, gg), comp(2, gg), comp(3, gg)
        recv_ok = a.recv is not None and a.recv[0] == "fld" and a.recv[2] == "parent" and canon(a.recv[1]) == canon(SELF)
        if pid in ("C02", "C07", "C01"):
            chk.ob("C07.R2", recv_ok, CORE, host, "adjust-receiver", "the cost of a trade is charged to the security's own parent", where=a.where, expected="self.parent.adjust",
                   found=short(a.recv) if a.recv else "?")
            amt = ab.get("amount")
            ok = amt is not None and full is not None and equal(sym.restrict(amt, gg), ("neg", full))
            if a in adj_for_amount or pid == "C07":
              chk.ob("C02.R1", ok, CORE, host, "adjust-amount", "the parent's cash moves by minus the full outlay (notional + spread + fee): value changes only by the explicit costs",
                   where=a.where, expected="-(full outlay)", found=short(amt, 200) if amt else "missing", sample={"amount": short(amt, 160) if amt else None})
            f = ab.get("fee")
            ok = f is not None and fee is not None and equal(sym.restrict(f, gg), fee)
            if pid == "C07":
              chk.ob("C07.R2", ok, CORE, host, "adjust-fee", "the commission is recorded as the parent's fee, once", where=a.where, expected="fee = commission component of outlay()",
                   found=short(f, 160) if f else "missing")
            if a is adj[-1] and pid in ("C01", "C09"):
                u = ab.get("update")
                chk.ob("C01.R6", (u is not None and canon(u) == canon(("param", "update"))) or _marks_parents_tree(S, R, u), CORE, host, "adjust-update-flag",
                       "the caller's update flag is handed to the parent", where=a.where)
        if pid in ("C03", "C07"):
            fl = ab.get("flow")
            chk.ob("C03.R4", fl is not None and canon(fl) == canon(sym.FALSE), CORE, host, "adjust-flow:trade", "trade proceeds and fees are never a flow", where=a.where,
                   expected="flow=False", found=short(fl) if fl else "default (flow)", sample={"flow": short(fl) if fl else "default"})
    # position, accumulators and typestate on the trading path
    a = adj[0]
    for st, _ in S.exits:
        g0 = G(st)
        qf = sym.restrict(final_value(st, SELF, R.POSITION), g0)
        for cg, leaf in sym.cases(qf):
            gg = sym.sat(tuple(g0) + tuple(cg))
            traded = guard_subset(a.guard, gg)
            if is_entry(leaf, SELF, R.POSITION):
                if pid in ("C02", "C07", "C01"):
                    chk.ob("C02.R1", not traded, CORE, host, "position-moves-with-cash", "cash moves only together with the position", where=fi.where)
                continue
            if pid in ("C02", "C07"):
                pws = [w for w in S.writes(R.POSITION, SELF) if guard_subset(w.guard, gg)]
                okp = len(pws) == 1 and increments_by(pws[0], q)
                chk.ob("C02.R1", okp and traded, CORE, host, "position-delta", "the position changes by exactly the traded quantity",
                       where=fi.where, expected="position + q", found=short(leaf), sample={"position": short(leaf)})
            if pid in ("C01", "C02"):
                nu = sym.restrict(final_value(st, SELF, R.NEEDUPDATE), gg)
                chk.ob("C01.R5", canon(nu) == canon(sym.TRUE), CORE, host, "needupdate-on-after-trade", "a security whose position changed is put back into the update loop",
                       where=fi.where, expected="%s = True on every trading exit" % R.NEEDUPDATE, found=short(nu))
            if pid in ("C07",):
                acc = _outlay_acc(chk, R)
                for fname, ci, key, what in ((acc, 1, "outlay-accumulated", "the fee-free outlay is accumulated for the date's outlay row"),
                                             (R.BIDOFFER_PAID, 3, "bidoffer-accumulated", "the spread cost is accumulated as bid/offer paid")):
                    ws = [w for w in S.writes(fname, SELF) if guard_subset(w.guard, gg)]
                    ok = len(ws) == 1 and comp(ci, gg) is not None and increments_by(_restricted(ws[0], gg), comp(ci, gg))
                    chk.ob("C07.R2", ok, CORE, host, key, what, where=ws[0].where if ws else fi.where, expected="%s += %s component of outlay()" % (fname, ["full", "outlay", "fee", "bidoffer"][ci]),
                           found=short(ws[0].extra, 200) if ws else "no write")
    # guards (C10.R1 custom price, zero quantity no-op)
    pw = S.writes(R.POSITION, SELF)
    if pid in ("C01", "C02", "C07", "C10"):
        # (raising the security's own refresh flag is not part of the trade: it only makes the next update of the parent look at the security again)
        first_effect = min([w.seq for w in pw] + [w.seq for w in S.writes(R.NEEDUPDATE, SELF) if canon(w.value) != canon(sym.TRUE)] + [e.seq for e in adj] or [10 ** 9])
        late = [r for r in S.raises if r.seq > first_effect and own_event(r, S.fn.qual)]
        chk.ob("C02.R1", not late, CORE, host, "no-partial-trade-on-error", "a refused trade changes nothing: every error is raised before the position, the flags or the parent's cash are touched",
               where=late[0].where if late else fi.where, expected="raise before the first write", found="%d raise sites after the position changed" % len(late))
    if pid in ("C10", "C02", "C18"):
        raises = [e for e in S.raises if has_lit(e.guard, ("isnone", price), False) and has_lit(e.guard, fld(SELF, "_bidoffer_set"), False)]
        ok = bool(raises) and all(any(r.seq < w.seq for r in raises) for w in pw)
        chk.ob("C10.R1", ok, CORE, host, "guard:custom-price-without-bidoffer", "a custom-price trade without bid/offer data must raise before the position changes", where=fi.where)
    if pid in ("C05", "C07", "C02"):
        for w in pw:
            gw = G(w)
            ok = sym.lit_holds(gw, ("zero", sym._abs_norm(sym.to_rat(q))), False)
            chk.ob("C05.R1", ok, CORE, host, "zero-quantity-noop", "a zero (or NaN) quantity trades nothing", where=w.where)


class _W(object):
    pass


def _restricted(w, gg):
    r = _W()
    r.value, r.old, r.obj, r.field = sym.restrict(w.value, gg), (sym.restrict(w.old, gg) if w.old is not None else None), w.obj, w.field
    return r


def _outlay_acc(chk, R):
    """The pending-outlay accumulator: the field flushed into the outlays row by SecurityBase.update."""
    S = chk.summary(CORE, "SecurityBase", "update", host="SecurityBase")
    for e in S.events:
        hs = hist_store(e)
        if hs and series_name(hs[0]) == R.OUTLAYS:
            inc = store_increment(e)
            for n in sym.walk(inc if inc is not None else hs[2]):
                if n[0] == "fld" and canon(n[1]) == canon(SELF):
                    return n[2]
    raise AnalysisError("SecurityBase.update no longer flushes a pending outlay into the outlays row")


# The documented positional interface of the mutators: callers (users and algos) pass the flags by position as well as by keyword, so the order and
# the defaults of these parameters are behaviour. New optional parameters may be appended.
PUBLIC_SIGNATURES = {
    ("StrategyBase", "adjust"): [("amount", None), ("update", "True"), ("flow", "True"), ("fee", "0.0")],
    ("StrategyBase", "allocate"): [("amount", None), ("child", "None"), ("update", "True")],
    ("StrategyBase", "transact"): [("q", None), ("child", "None"), ("update", "True")],
    ("StrategyBase", "rebalance"): [("weight", None), ("child", None), ("base", "np.nan"), ("update", "True")],
    ("StrategyBase", "close"): [("child", None), ("update", "True")],
    ("SecurityBase", "allocate"): [("amount", None), ("update", "True")],
    ("SecurityBase", "transact"): [("q", None), ("update", "True"), ("update_self", "True"), ("price", "None")],
}


def public_signature(chk, cls, name):
    fi = chk.prog.func(CORE, cls, name)
    want = PUBLIC_SIGNATURES[(cls, name)]
    a = fi.node.args
    pos = [x.arg for x in (a.posonlyargs + a.args)][1:]
    defaults = [None] * (len(pos) - len(a.defaults)) + [ast.unparse(d) for d in a.defaults][-len(pos):] if pos else []
    got = list(zip(pos, defaults))

    def same(d1, d2):
        if d1 is None or d2 is None:
            return d1 is d2
        try:
            return float(eval(d1, {"np": __import__("math"), "True": True, "False": False, "None": None})) == float(eval(d2, {"np": __import__("math"), "True": True, "False": False, "None": None}))
        except Exception:
            return d1.replace("numpy", "np").replace("float('nan')", "np.nan") == d2
    ok = len(got) >= len(want) and all(g[0] == w[0] and (same(g[1], w[1]) or (g[1] is not None and w[1] is not None and g[1] == w[1])) for g, w in zip(got, want)) and \
        all(d is not None for _, d in got[len(want):])
    if not ok and len(got) >= len(want):
        # NaN != NaN: compare the spelling for the NaN default
        ok = all(g[0] == w[0] and ((g[1] is None and w[1] is None) or (g[1] is not None and w[1] is not None and (g[1] == w[1] or same(g[1], w[1]) or ("nan" in g[1].lower() and "nan" in w[1].lower()))))
                 for g, w in zip(got, want)) and all(d is not None for _, d in got[len(want):])
    chk.ob("C03.R3", ok, CORE, "%s.%s" % (cls, name), "positional-interface",
           "the positional order and the defaults of the mutator's parameters are part of its behaviour (a flag passed by position must keep its meaning)", where=fi.where,
           expected=", ".join("%s=%s" % (p, d) if d is not None else p for p, d in want), found=", ".join("%s=%s" % (p, d) if d is not None else p for p, d in got))


def adjust_rules(chk, pid):
    """The credit primitive (C02.R4 / C03.R3 / C07.R3 / C01.R6)."""
    R = Roles(chk.prog)
    public_signature(chk, "StrategyBase", "adjust")
    fi = chk.prog.func(CORE, "StrategyBase", "adjust")
    S = chk.summary(CORE, "StrategyBase", "adjust", host="StrategyBase")
    host = "StrategyBase.adjust"
    chk.site()
    amount, fee, flow, update = ("param", "amount"), ("param", "fee"), ("param", "flow"), ("param", "update")
    chk.need(len(S.exits) >= 1, "%s has no normal exit" % host)
    z_amount = ("zero", sym._abs_norm(sym.to_rat(amount)))
    z_fee = ("zero", sym._abs_norm(sym.to_rat(fee)))
    for st, _ in S.exits:
        g0 = G(st)
        if pid in ("C02", "C07", "C01"):
            cap = sym.restrict(final_value(st, SELF, R.CAPITAL), g0)
            ok = True
            for cg, leaf in sym.cases(cap):
                gg = sym.sat(tuple(g0) + tuple(cg))
                ok = ok and (equal(leaf, ("+", fld(SELF, R.CAPITAL), amount)) or (is_entry(leaf, SELF, R.CAPITAL) and sym.lit_holds(gg, z_amount, True)))
            chk.ob("C02.R4", ok, CORE, host, "credit-capital", "adjust moves the strategy's cash by exactly the amount, whatever the flags", where=fi.where, expected="capital + amount",
                   found=short(cap), sample={"capital": short(cap)})
        if pid in ("C07",):
            lf = sym.restrict(final_value(st, SELF, R.LAST_FEE), g0)
            ok = True
            for cg, leaf in sym.cases(lf):
                gg = sym.sat(tuple(g0) + tuple(cg))
                ok = ok and (equal(leaf, ("+", fld(SELF, R.LAST_FEE), fee)) or (is_entry(leaf, SELF, R.LAST_FEE) and sym.lit_holds(gg, z_fee, True)))
            chk.ob("C07.R3", ok, CORE, host, "credit-fee", "the fee of the date accumulates every fee passed to adjust", where=fi.where, expected="last_fee + fee", found=short(lf))
        if pid in ("C03", "C07"):
            nf = sym.restrict(final_value(st, SELF, R.NET_FLOWS), g0)
            for cg, leaf in sym.cases(nf):
                gg = sym.sat(tuple(g0) + tuple(cg))
                is_flow = sym.lit_holds(gg, flow, True)
                not_flow = sym.lit_holds(gg, flow, False)
                if sym.lit_holds(gg, z_amount, True) and is_entry(leaf, SELF, R.NET_FLOWS):
                    ok = True
                elif is_flow:
                    ok = equal(leaf, ("+", fld(SELF, R.NET_FLOWS), amount))
                elif not_flow:
                    ok = is_entry(leaf, SELF, R.NET_FLOWS)
                else:
                    ok = False
                chk.ob("C03.R3", ok, CORE, host, "credit-flow:%s" % ("flow" if is_flow else "non-flow" if not_flow else "unconditional"),
                       "the flow accumulator grows by the amount exactly when the adjustment is a flow", where=fi.where,
                       expected="net_flows + amount under flow; unchanged otherwise", found=short(leaf), sample={"net_flows": short(leaf), "guard": sym.fmt_guard(cg)})
        if pid in ("C01", "C08", "C03"):
            # callers (SecurityBase.transact) rely on adjust to mark the tree stale: on every exit, under `update`
            root = fld(SELF, "root")
            gu = sym.sat(tuple(g0) + ((canon(update), True),))
            if sym.inconsistent(gu):
                continue  # an exit taken only when the caller defers the update
            sv = sym.restrict(final_value(st, root, R.STALE), gu)
            ok = all(canon(leaf) == canon(sym.TRUE) for _, leaf in sym.cases(sv))
            chk.ob("C01.R6", ok, CORE, host, "stale-after-mutation", "adjust marks the tree stale on every path (callers such as transact rely on it), unless the caller defers the update",
                   where=fi.where, expected="root.%s = True under `update` on every exit" % R.STALE, found=short(sv), sample={"stale": short(sv), "exit": sym.fmt_guard(st.guard)})


ALLOWED_WRITERS = {
    # role -> {(class, function): reason}
    "CAPITAL": {("Node", "__init__"): "zero initialisation", ("StrategyBase", "adjust"): "the credit primitive", ("StrategyBase", "update"): "coupon sweep (pair checked by C02.R3)",
                ("CouponPayingSecurity", "update"): "carry parked on the security node (C17.R2)"},
    "POSITION": {("SecurityBase", "__init__"): "zero initialisation", ("SecurityBase", "transact"): "the only place a position changes (C02.R1)"},
    "NET_FLOWS": {("StrategyBase", "__init__"): "zero initialisation", ("StrategyBase", "adjust"): "flow credit", ("StrategyBase", "update"): "reset on date change (C03.R2)"},
    "LAST_FEE": {("StrategyBase", "__init__"): "zero initialisation", ("StrategyBase", "adjust"): "fee credit", ("StrategyBase", "update"): "reset on date change (C03.R2)"},
}


def ownership_rules(chk, pid, roles=("CAPITAL", "POSITION", "NET_FLOWS", "LAST_FEE")):
    """T-OWN: who may write primary state (whole program, every attribute store)."""
    R = Roles(chk.prog)
    names = {"CAPITAL": R.CAPITAL, "POSITION": R.POSITION, "NET_FLOWS": R.NET_FLOWS, "LAST_FEE": R.LAST_FEE}
    found = {r: 0 for r in roles}
    for f in chk.prog.all_functions(modules=("bt/core.py", "bt/algos.py", "bt/backtest.py")):
        for n in ast.walk(f.node):
            targets = []
            if isinstance(n, ast.Assign):
                targets = n.targets
            elif isinstance(n, (ast.AugAssign, ast.AnnAssign)):
                targets = [n.target]
            for t in targets:
                for el in ast.walk(t):
                    if isinstance(el, ast.Attribute) and isinstance(el.ctx, ast.Store):
                        for r in roles:
                            if el.attr == names[r]:
                                found[r] += 1
                                chk.site()
                                ok = (f.cls, f.name) in ALLOWED_WRITERS[r]
                                if not ok:
                                    # a private helper inherits the role of the function(s) it was extracted from
                                    hs = working_for(chk.prog, f)
                                    ok = bool(hs) and all((h.cls, h.name) in ALLOWED_WRITERS[r] for h in hs)
                                rule = {"CAPITAL": "C02.R4", "POSITION": "C02.R4", "NET_FLOWS": "C03.R3", "LAST_FEE": "C07.R3"}[r]
                                chk.ob(rule, ok, f.module, f.qual, "writer:%s" % names[r],
                                       "%s may be written only by its enumerated owners (%s)" % (names[r], ", ".join("%s.%s" % k for k in ALLOWED_WRITERS[r])),
                                       where="%s:%d" % (f.module, n.lineno), found="written in %s" % f.qual, sample={"field": names[r], "writer": f.qual})
                    # setattr-style writes through __dict__ are out of model
    for r in roles:
        chk.floor_count("T-OWN:%s" % names[r], found[r], 2)


MUTATOR_NAMES = ("adjust", "allocate", "transact", "rebalance", "close")


def defer_rules(chk, pid, modules=("bt/core.py", "bt/algos.py"), only_hosts=None):
    """T-DEFER (C01.R6): a mutator called with update=False sits in a bracket that ends in a refresh of the root."""
    R = Roles(chk.prog)
    n_sites = 0
    cands = []
    for f in chk.prog.all_functions(modules=modules):
        src_has = any(isinstance(n, ast.keyword) and n.arg == "update" and isinstance(n.value, ast.Constant) and n.value.value is False for n in ast.walk(f.node))
        pos_false = any(isinstance(n, ast.Call) and isinstance(n.func, ast.Attribute) and n.func.attr in MUTATOR_NAMES and any(isinstance(a, ast.Constant) and a.value is False for a in n.args)
                        for n in ast.walk(f.node))
        if not (src_has or pos_false):
            continue
        # the bracket of a private helper is closed by the functions it works for (it is inlined into them)
        hosts = [h for h in working_for(chk.prog, f) if h.module in modules] if f.name not in MUTATOR_NAMES else [f]
        for h in (hosts or [f]):
            if h not in cands:
                cands.append(h)
    for f in cands:
        if only_hosts is not None and f.qual not in only_hosts:
            continue
        host_cls = f.cls
        S = chk.summary(f.module, f.cls, f.name, host=host_cls, no_inline=MUTATOR_NAMES + ("update", "flatten", "_create_child_if_needed"))
        for e in S.events:
            if e.kind != "call" or e.name not in MUTATOR_NAMES or e.recv is None:
                continue
            ab = bound_args(e, chk.prog)
            u = ab.get("update")
            if u is None or canon(u) != canon(sym.FALSE):
                continue
            n_sites += 1
            chk.site()
            closers = []
            for c in S.events:
                if c.seq <= e.seq:
                    continue
                is_stale = c.kind == "write" and c.field == R.STALE and canon(c.value) == canon(sym.TRUE) and c.obj[0] == "fld" and c.obj[2] == "root"
                is_update = c.kind == "call" and c.name == "update" and c.recv is not None and c.recv[0] == "fld" and c.recv[2] == "root"
                # a later mutator call that is NOT deferred (update=True / default / the host's own flag) marks the tree stale itself
                is_handoff = False
                if c.kind == "call" and c.name in MUTATOR_NAMES and c.recv is not None:
                    cu = bound_args(c, chk.prog).get("update", sym.TRUE)
                    is_handoff = canon(cu) in (canon(sym.TRUE), canon(("param", "update")))
                if not (is_stale or is_update or is_handoff):
                    continue
                extra = [l for l in plain(c.guard) if not sym.lit_holds(sym.sat(e.guard), l[0], l[1])]
                own_update = [l for l in extra if canon(l[0]) == canon(("param", "update")) and l[1]]
                if is_handoff and canon(bound_args(c, chk.prog).get("update", sym.TRUE)) == canon(("param", "update")):
                    own_update = own_update  # the flag itself carries the obligation to the caller
                if len(extra) == len(own_update) and loops_prefix(c.loops, e.loops):
                    closers.append(c)
            key = "deferred:%s" % e.name
            chk.ob("C01.R6", bool(closers), f.module, f.qual, key,
                   "a %s(update=False) call must be followed on every path by root.update(...) or root.stale = True (possibly under the host's own `update` flag)" % e.name,
                   where=e.where, expected="refresh of the ROOT after the deferred call", found="no closing refresh on the path",
                   sample={"call": "%s(update=False)" % e.name, "closer": repr(closers[0])[:120] if closers else None})
            for c in closers[:1]:
                if c.kind == "call" and c.name == "update":
                    base = c.recv[1]
                    a0 = c.args[0] if c.args else None
                    ok = a0 is not None and a0[0] == "fld" and a0[2] == "now" and (canon(a0[1]) == canon(base) or canon(a0[1]) == canon(c.recv))
                    chk.ob("C01.R6", ok, f.module, f.qual, key + ":refresh-date", "the closing refresh updates the root to the current date", where=c.where,
                           expected="root.update(<node>.now)", found=short(a0) if a0 else "no date")
    return n_sites


def row_hint_rules(chk, pid, modules=("bt/core.py", "bt/algos.py", "bt/backtest.py")):
    """The optional row hint (`inow`) of update(): a caller that passes one vouches that it is the row of the date it passes.  The only caller that can is an update() handing
    its own resolved row down together with its own date; everywhere else the hint is None / absent (update then looks the row up itself).  A row remembered on some node and
    handed in later (a cached `_inow` of the parent) is the row of whatever date that node resolved last - for a child strategy, which is handed its row and never resolves
    one, the initial 0."""
    n = 0
    for f in chk.prog.all_functions(modules=modules):
        has = any(isinstance(c, ast.Call) and isinstance(c.func, ast.Attribute) and c.func.attr == "update" and (len(c.args) >= 3 or any(k.arg == "inow" for k in c.keywords))
                  for c in ast.walk(f.node))
        if not has:
            continue
        hosts = [h for h in working_for(chk.prog, f)] or [f]
        for h in hosts:
            S = chk.summary(h.module, h.cls, h.name, host=h.cls, no_inline=("update", "allocate", "transact", "adjust", "flatten", "close", "rebalance", "run"))
            for e in S.calls("update"):
                hint = e.arg(None, "inow", pos=2)
                if hint is None:
                    continue
                n += 1
                chk.site()
                d = e.arg(None, "date", pos=0)
                if canon(hint) == canon(sym.NONE):
                    ok = True
                elif h.name == "update":
                    ok = d is not None and canon(d) == canon(DATE) and (canon(hint) == canon(INOW) or is_inow(hint, guard=e.guard))  # resolved, or the caller's own hint passed on untouched
                else:
                    ok = False
                chk.ob("C08.R4", ok, h.module, h.qual, "row-hint", "the row hint passed to update() is None, or update()'s own resolved row handed down with its own date - never a row "
                       "remembered from another call or another node", where=e.where, expected="inow=None, or (date, inow) of the calling update()", found=short(hint, 160),
                       sample={"hint": short(hint, 80)})
    return n


ALLOCATE_NOINLINE = ("adjust", "allocate", "update", "_create_child_if_needed", "transact", "close", "flatten")


def strategy_allocate_rules(chk, pid):
    """C02.R2 / C03.R4 / C06.R7: capital pushed into a strategy is debited from its parent, credited to it, and spread by child weight."""
    public_signature(chk, "StrategyBase", "allocate")
    public_signature(chk, "StrategyBase", "transact")
    R = Roles(chk.prog)
    fi = chk.prog.func(CORE, "StrategyBase", "allocate")
    S = chk.summary(CORE, "StrategyBase", "allocate", host="StrategyBase", no_inline=ALLOCATE_NOINLINE)
    host = "StrategyBase.allocate"
    chk.site()
    amount = ("param", "amount")
    child_none = ("isnone", ("param", "child"))
    adj = S.calls("adjust")
    par = [e for e in adj if e.recv is not None and e.recv[0] == "fld" and e.recv[2] == "parent"]
    own = [e for e in adj if e.recv == SELF]
    chk.need(par and own, "%s no longer moves capital between the parent and itself through adjust()" % host)
    if pid in ("C02", "C07", "C06"):
        for o in own:
            go = G(o)
            ob_ = bound_args(o, chk.prog)
            debits = [p for p in par if _consistent(G(p), go)]
            # on every path through the credit there is exactly one debit with the opposite amount
            ok = bool(debits)
            for p in debits:
                pb = bound_args(p, chk.prog)
                ok = ok and pb.get("amount") is not None and ob_.get("amount") is not None and sym.to_rat(("+", pb["amount"], ob_["amount"])).is_zero()
            paths_covered = _covers(debits, o)
            chk.ob("C02.R2", ok and paths_covered, CORE, host, "transfer-balanced", "what a sub-strategy receives is exactly what its parent pays: moving capital inside the tree creates no value",
                   where=o.where, expected="parent.adjust(-amount) on every path of self.adjust(amount)", found="%d debit sites" % len(debits),
                   sample={"credit": short(ob_.get("amount", sym.NONE)), "debits": [short(bound_args(p, chk.prog).get("amount", sym.NONE)) for p in debits]})
            chk.ob("C02.R2", ob_.get("amount") is not None and canon(ob_["amount"]) == canon(amount), CORE, host, "transfer-amount", "the strategy is credited with the allocated amount",
                   where=o.where, found=short(ob_.get("amount", sym.NONE)))
    if pid in ("C03", "C07"):
        # decided per scenario (root / non-root), whether the code branches on it or computes the flag
        def _root_atoms(v, acc):
            for n in sym.walk(v):
                if n[0] in ("eq", "is", "cmp") and (mentions_field(n, "parent", SELF) or mentions_field(n, "root", SELF)) and not sym.contains(n, lambda m: m[0] == "ite"):
                    cn = canon(n)
                    if isinstance(cn, tuple) and cn and cn[0] == "not":
                        cn = cn[1]
                    if cn not in acc:
                        acc.append(cn)
        atoms = []
        for p in par:
            fl = bound_args(p, chk.prog).get("flow", sym.TRUE)
            _root_atoms(canon(fl), atoms)
            for a, pol in plain(p.guard):
                _root_atoms(canon(a), atoms)
        if not atoms:
            chk.ob("C03.R4", False, CORE, host, "adjust-flow:parent-debit-undistinguished", "capital handed to a sub-strategy is a flow for the child and a non-flow for its (non-root) parent",
                   where=par[0].where, expected="the debit must distinguish a root (flow) from a non-root parent (non-flow)", found="no test of parent/root")
        for is_root in (True, False):
            if pid == "C07" and is_root:
                continue
            sc = tuple((a, is_root) for a in atoms)
            hits = []
            for p in par:
                g = sym.sat(tuple(G(p)) + sc)
                if sym.inconsistent(g):
                    continue
                fl = sym.restrict(bound_args(p, chk.prog).get("flow", sym.TRUE), g)
                try:
                    if sym.lit_holds(g, fl, True):
                        fl = sym.TRUE
                    elif sym.lit_holds(g, fl, False):
                        fl = sym.FALSE
                except Exception:
                    pass
                hits.append((p, fl))
            key = "adjust-flow:root-self-debit" if is_root else "adjust-flow:non-root-parent-debit"
            exp = "flow=True (the root pays itself: net flow zero)" if is_root else "flow=False (the parent is another strategy: funding a child is not a flow of the parent)"
            want = sym.TRUE if is_root else sym.FALSE
            if atoms and not hits:
                chk.ob("C03.R4", False, CORE, host, key, "capital handed to a sub-strategy is a flow for the child and a non-flow for its (non-root) parent", where=fi.where, expected=exp,
                       found="no debit on this path")
            for p, fl in hits:
                chk.ob("C03.R4", canon(fl) == canon(want), CORE, host, key, "capital handed to a sub-strategy is a flow for the child and a non-flow for its (non-root) parent", where=p.where,
                       expected=exp, found="flow=%s" % short(fl), sample={"flow": short(fl)})
        if pid == "C03":
            for o in own:
                fl = bound_args(o, chk.prog).get("flow", sym.TRUE)
                chk.ob("C03.R4", canon(fl) == canon(sym.TRUE), CORE, host, "adjust-flow:self-credit", "capital received from the parent is a flow of the receiving strategy",
                       where=o.where, expected="flow=True", found="flow=%s" % short(fl))
    if pid in ("C06", "C16", "C02"):
        spread = [e for e in S.calls("allocate") if e.recv is not None and e.recv[0] == "elem"]
        ok = False
        for e in spread:
            eb = bound_args(e, chk.prog)
            amt = eb.get("amount")
            w = ("fld", e.recv, R.WEIGHT, 0)
            ok = amt is not None and equal(amt, ("*", amount, w)) and over_all_children(e.recv[1], SELF) and not e.loops[-1].filter
        chk.ob("C06.R7", ok, CORE, host, "spread-by-weight", "a strategy spreads received capital over all its children in proportion to their current weights", where=fi.where,
               expected="c.allocate(amount * c.weight) for every child", found="%d spread sites" % len(spread))
        U = chk.summary(CORE, "StrategyBase", "update", host="StrategyBase")
        raised = [w for w in U.writes("bankrupt", SELF) if canon(w.value) == canon(sym.TRUE)]
        flag_first = any(c.recv == SELF and any(c.seq > w.seq for w in raised) for c in U.calls("flatten"))
        if pid == "C16" and flag_first:
            # the liquidation itself runs through this push-down, with the flag already raised: it cannot depend on the flag
            for e in spread:
                dep = [l for l in plain(e.guard) if sym.contains(l[0], lambda n: isinstance(n, tuple) and len(n) == 4 and n[0] == "fld" and n[2] == "bankrupt")]
                chk.ob("C16.R2", not dep, CORE, host, "spread-while-bankrupt", "the push-down of an allocation does not depend on the bankruptcy flag (flatten pushes the liquidation down after the flag is raised)",
                       where=e.where, found=sym.fmt_guard(dep)[:160])
    if pid in ("C19", "C06"):
        direct = [e for e in S.calls("allocate") if e.recv is not None and e.recv[0] == "sub"]
        cc = S.calls("_create_child_if_needed")
        ok = bool(direct) and all(any(dominates(c, d) for c in cc) for d in direct)
        chk.ob("C19.R3", ok, CORE, host, "lazy-child-before-lookup", "a child named only by a string is created before it is looked up", where=fi.where)
        for d in direct:
            db = bound_args(d, chk.prog)
            chk.ob("C06.R7", db.get("amount") is not None and canon(db["amount"]) == canon(amount), CORE, host, "child-allocation-amount", "allocating to a named child passes the amount on unchanged",
                   where=d.where)


def _covers(debits, o):
    """Do the debit sites cover every path through the credit? (their guards, minus o's, are complementary)"""
    if not debits:
        return False
    go = sym.sat(o.guard)
    rests = []
    for d in debits:
        rests.append([l for l in plain(d.guard) if not sym.lit_holds(go, l[0], l[1])])
    if any(not r for r in rests):
        return True
    if len(rests) == 2 and len(rests[0]) == 1 and len(rests[1]) == 1:
        (a1, p1), (a2, p2) = rests[0][0], rests[1][0]
        return canon(a1) == canon(a2) and p1 != p2
    return False


# ------------------------------------------------------------------------------------------------
# Accessors: refresh-on-read and slicing (C08.R3 / C08.R5 / C01.R7), raw reads of derived state (T-FRESH)


def _derived_state(chk, R, family="all"):
    """Classify cached fields and row series by effect analysis of every `update` override:
    tree-derived (depends on primary state of the tree) vs date-derived (data at the date only)."""
    primary = {R.POSITION, R.CAPITAL, R.NET_FLOWS, R.LAST_FEE, _outlay_acc(chk, R)}
    field_deps = {}
    series_src = {}
    classes = {"all": SEC_CLASSES + ["StrategyBase"], "sec": SEC_CLASSES, "strat": ["StrategyBase"]}[family]
    for K in classes:
        fi = chk.prog.resolve(K, "update")
        S = chk.summary(fi.module, fi.cls, "update", host=K)
        for e in S.events:
            if e.kind == "write" and (canon(e.obj) == canon(SELF) or e.obj[0] == "elem"):
                deps = field_deps.setdefault(e.field, set())
                for n in sym.walk(e.value):
                    if n[0] == "fld" and (canon(n[1]) == canon(SELF) or n[1][0] == "elem"):
                        deps.add(n[2])
                    if n[0] == "sum":
                        deps.add("<children>")
            hs = hist_store(e)
            if hs and series_name(hs[0]):
                deps = series_src.setdefault(series_name(hs[0]), set())
                for n in sym.walk(hs[2]):
                    if n[0] == "fld" and (canon(n[1]) == canon(SELF) or n[1][0] == "elem"):
                        deps.add(n[2])
                    if n[0] == "sum":
                        deps.add("<children>")
    tree = set(primary) | {"<children>"}
    changed = True
    while changed:
        changed = False
        for f, deps in field_deps.items():
            if f not in tree and deps & tree:
                tree.add(f)
                changed = True
    tree_fields = set(f for f in field_deps if f in tree) - primary
    date_fields = set(f for f in field_deps if f not in tree)
    tree_series = set(s for s, deps in series_src.items() if deps & tree)
    date_series = set(s for s in series_src if s not in tree_series)
    return primary, tree_fields, date_fields, tree_series, date_series


SELF_REFRESH_EXCEPTIONS = {
    ("CouponPayingSecurity", n): "tree refresh only: coupon and holding cost of a dormant (flat, skipped) security are zero; observed deviation from its siblings, not a C08 break"
    for n in ("coupon", "coupons", "holding_cost", "holding_costs")
}


def accessor_rules(chk, pid):
    R = Roles(chk.prog)
    prog = chk.prog
    fams = {k: _derived_state(chk, R, k) for k in ("all", "sec", "strat")}
    input_series = {R.SPRICES, R.BIDOFFERS}
    primary, tree_fields, date_fields, tree_series, date_series = fams["all"]
    chk.need(R.VALUE in tree_fields and R.WEIGHT in tree_fields and R.VALUES in tree_series, "effect analysis no longer finds value/weight/values to be tree-derived")
    n_acc = 0
    node_classes = [c for c in prog.classes if prog.is_subclass(c, "Node")]
    for cname in node_classes:
        ci = prog.classes[cname]
        for name, fi in ci.methods.items():
            if not fi.is_property:
                continue
            n_acc += 1
            chk.site()
            host = "%s.%s" % (cname, name)
            b = property_backing(fi)
            if b[0] == "abstract":
                continue
            if cname == "StrategyBase" and name == "universe":
                continue  # C04.R3
            is_sec = prog.is_subclass(cname, "SecurityBase")
            primary, tree_fields, date_fields, tree_series, date_series = fams["sec" if is_sec else "strat" if prog.is_subclass(cname, "StrategyBase") else "all"]
            if is_sec:
                tree_series = tree_series - input_series
            all_series = tree_series | date_series | input_series
            S = chk.summary(fi.module, cname, name, host=cname, no_inline=("update",))
            # what does it hand out?
            ret_fields, ret_series, reads_accessors = set(), set(), set()
            for e in S.events:
                if e.kind == "return" and tuple(e.chain) == (fi.qual,):
                    for n in sym.walk(e.value):
                        if n[0] == "fld" and canon(n[1]) == canon(SELF):
                            if n[2] in all_series:
                                ret_series.add(n[2])
                            elif n[2] in tree_fields | date_fields | primary:
                                ret_fields.add(n[2])
                if e.kind == "propread" and e.obj != SELF and e.name in ("positions", "outlays", "values", "prices", "notional_values"):
                    reads_accessors.add(e.name)
            needs_tree = bool((ret_fields & tree_fields) or (ret_series & tree_series) or reads_accessors)
            needs_self = is_sec and bool((ret_fields & (tree_fields | date_fields)) or (ret_series & (tree_series | date_series | input_series)))
            if (cname, name) in SELF_REFRESH_EXCEPTIONS:
                needs_self = False
            rets = [e for e in S.events if e.kind == "return" and tuple(e.chain) == (fi.qual,)]
            tree_ref = [e for e in S.calls("update") if e.recv is not None and e.recv[0] == "fld" and e.recv[2] == "root" and canon(e.recv[1]) == canon(SELF)
                        and any(p and a[0] == "fld" and a[2] == R.STALE for a, p in e.guard)]
            self_ref = [e for e in S.calls("update") if e.recv == SELF]
            if pid in ("C03", "C07") and needs_tree and (ret_fields & {R.VALUE, R.WEIGHT, R.NOTIONAL}):
                # a refresh at a lagging clock looks like a date change to the root: it resets the flow / fee accumulators
                for t in tree_ref:
                    a0 = t.args[0] if t.args else None
                    root_now = a0 is not None and a0[0] == "fld" and a0[2] == "now" and a0[1][0] == "fld" and a0[1][2] == "root"
                    self_now = a0 is not None and a0[0] == "fld" and a0[2] == "now" and canon(a0[1]) == canon(SELF)
                    ok = root_now or (self_now and prog.is_subclass(cname, "StrategyBase"))
                    chk.ob("C08.R3", ok, fi.module, host, "tree-refresh-date", "the refresh runs the root at the ROOT's clock: at a lagging clock it would count as a date change and reset the flow and fee accumulators",
                           where=t.where, expected="root.update(root.now, ...)", found=short(a0) if a0 else "no date")
            if pid in ("C08", "C01") and needs_tree:
                if pid == "C08" or (ret_fields & {R.VALUE, R.WEIGHT, R.NOTIONAL}) or (ret_series & {R.CASH, R.POSITIONS, R.VALUES, R.SVALUES}) or reads_accessors:
                    ok = bool(rets) and all(any(t.seq < r.seq and guard_subset([l for l in t.guard if not (l[0][0] == "fld" and l[0][2] == R.STALE)], r.guard) for t in tree_ref)
                                            for r in rets if not _raises_only(r))
                    chk.ob("C08.R3", ok, fi.module, host, "tree-refresh", "an accessor of tree-derived state refreshes a stale tree before reading", where=fi.where,
                           expected="if root.%s: root.update(root.now) before the read" % R.STALE, found="%d refresh sites" % len(tree_ref),
                           sample={"accessor": host, "returns": sorted(ret_fields | ret_series | reads_accessors)})
                    for t in tree_ref:
                        a0 = t.args[0] if t.args else None
                        root_now = a0 is not None and a0[0] == "fld" and a0[2] == "now" and a0[1][0] == "fld" and a0[1][2] == "root"
                        self_now = a0 is not None and a0[0] == "fld" and a0[2] == "now" and canon(a0[1]) == canon(SELF)
                        may_be_security = not prog.is_subclass(cname, "StrategyBase")
                        ok = root_now or (self_now and not may_be_security)
                        chk.ob("C08.R3", ok, fi.module, host, "tree-refresh-date", "the refresh runs the root at the ROOT's clock (a flat security's own clock may lag)", where=t.where,
                               expected="root.update(root.now, ...)", found=short(a0) if a0 else "no date")
            if pid in ("C08", "C18") and needs_self:
                if pid == "C08" or (ret_series & {R.POSITIONS, R.SVALUES, R.OUTLAYS, R.SPRICES, R.BIDOFFERS_PAID}):
                    ok = bool(rets) and all(any(t.seq < r.seq for t in self_ref) for r in rets if not _raises_only(r))
                    chk.ob("C08.R3", ok, fi.module, host, "self-refresh", "a security accessor brings the security to the tree's date before reading", where=fi.where,
                           expected="if needupdate or now != parent.now: update(root.now)", found="%d refresh sites" % len(self_ref), sample={"accessor": host})
                    for t in self_ref:
                        g = G(t)
                        a0 = t.args[0] if t.args else None
                        okd = a0 is not None and a0[0] == "fld" and a0[2] == "now" and a0[1][0] == "fld" and a0[1][2] in ("root", "parent")
                        okg = any(mentions_field(a, R.NEEDUPDATE, SELF) for a, p in t.guard)
                        if okg:
                            # decided on the truth table of the two atoms: refresh exactly when (needupdate or own clock != parent's clock)
                            nu = canon(fld(SELF, R.NEEDUPDATE))
                            same_clock = canon(("cmp", "==", fld(SELF, "now"), fld(fld(SELF, "parent"), "now")))
                            trig = [l for l in lits(plain(t.guard)) if mentions_field(l[0], R.NEEDUPDATE, SELF) or mentions_field(l[0], "now", SELF)]
                            for b_nu in (True, False):
                                for b_same in (True, False):
                                    g_ = sym.sat(((nu, b_nu), (same_clock, b_same)))
                                    val = True
                                    for a_, p_ in trig:
                                        if sym.lit_holds(g_, a_, p_):
                                            continue
                                        val = False if sym.lit_holds(g_, a_, not p_) else None
                                        break
                                    if val is None or val != (b_nu or not b_same):
                                        okg = False
                        chk.ob("C08.R3", okd and okg, fi.module, host, "self-refresh-shape", "the self refresh is triggered by the needupdate flag or a lagging clock and runs at the tree's date",
                               where=t.where, found="%s | %s" % (short(a0) if a0 else "-", sym.fmt_guard(t.guard)))
                        dep = [l for l in plain(t.guard) if mentions_field(l[0], R.STALE, fld(SELF, "root")) or (l[0][0] == "fld" and l[0][2] == R.STALE)]
                        chk.ob("C08.R3", not dep, fi.module, host, "self-refresh-independent", "the two refreshes are independent: a root update skips idle securities, so a lagging security "
                               "must bring itself up to date whether or not the tree was stale", where=t.where, expected="self refresh not conditioned on root.%s" % R.STALE, found=sym.fmt_guard(dep))
            # slicing
            if ret_series and pid in ("C08", "C04"):
                attributed = pid == "C08" or (ret_series & input_series)
                if attributed:
                    ok = b[0] == "series"
                    chk.ob("C08.R5", ok, fi.module, host, "slice-to-now", "a history handed to the user ends at the node's current date", where=fi.where,
                           expected="%s.loc[: self.now]" % sorted(ret_series)[0], found="returned unsliced" if b[0] != "series" else "sliced",
                           sample={"accessor": host, "series": sorted(ret_series)})
    chk.floor_count("accessors", n_acc, 20)


def _raises_only(r):
    return False


RAW_READ_EXCEPTIONS = {
    ("StrategyBase.allocate", "WEIGHT"): "documented: spreads by the cached weight to avoid a refresh inside the deferred-update bracket",
    ("StrategyBase.transact", "WEIGHT"): "documented: same as allocate, for notional",
}


FRESH_HOSTS = {
    "C01": lambda f: f.name == "update" and f.module == CORE,
    "C08": lambda f: f.module == CORE,  # a raw read makes a later result depend on whether a (redundant) update happened in between
    "C06": lambda f: f.qual in ("StrategyBase.rebalance", "StrategyBase.close", "StrategyBase.flatten", "Rebalance.__call__", "RebalanceOverTime.__call__"),
    "C17": lambda f: f.qual in ("StrategyBase.rebalance", "Rebalance.__call__"),
    "C16": lambda f: f.qual in ("StrategyBase.flatten", "StrategyBase.update"),
    "C20": lambda f: f.qual in ("StrategyBase.close", "ClosePositionsAfterDates.__call__", "RollPositionsAfterDates.__call__", "HedgeRisks.__call__", "UpdateRisk._set_risk_recursive"),
    "C18": lambda f: f.module == "bt/backtest.py" or f.qual in ("StrategyBase.get_transactions", "ReplayTransactions.__call__"),
    "C13": lambda f: f.qual in ("RunIfOutOfBounds.__call__",),
    "C15": lambda f: f.qual in ("LimitDeltas.__call__", "PTE_Rebalance.__call__"),
}


def _fi_branch(fnode, target):
    """'fi' / 'mv' when `target` sits in the body / orelse of an `if self.fixed_income:` of the function, else None."""
    def is_fi_test(t):
        return isinstance(t, ast.Attribute) and t.attr in ("fixed_income", "_fixed_income")

    for n in ast.walk(fnode):
        if isinstance(n, ast.If) and is_fi_test(n.test):
            for b in n.body:
                if any(x is target for x in ast.walk(b)):
                    return "fi"
            for b in n.orelse:
                if any(x is target for x in ast.walk(b)):
                    return "mv"
    return None


def fresh_read_rules(chk, pid, hosts_for=None):
    """T-FRESH: derived state of *another* node (value, notional, weight, price) is read through its
    refreshing accessor, never through the cached field, except at the enumerated sites."""
    R = Roles(chk.prog)
    derived = {R.VALUE: "VALUE", R.NOTIONAL: "NOTIONAL", R.WEIGHT: "WEIGHT", R.PRICE: "PRICE"}
    n = 0
    for f in chk.prog.all_functions(modules=("bt/core.py", "bt/algos.py", "bt/backtest.py")):
        if f.name in ("__init__",) or (f.cls and f.is_property):
            continue
        hf = hosts_for or FRESH_HOSTS.get(pid)
        if hf is not None and not hf(f):
            continue
        for node in ast.walk(f.node):
            if isinstance(node, ast.Attribute) and isinstance(node.ctx, ast.Load) and node.attr in derived:
                base = node.value
                if isinstance(base, ast.Name) and base.id == "self":
                    continue
                role = derived[node.attr]
                branch = _fi_branch(f.node, node)
                if pid == "C06" and branch == "fi":
                    continue
                if pid == "C17" and branch == "mv":
                    continue
                n += 1
                chk.site()
                if f.cls == "StrategyBase" and f.name == "update":
                    # inside update the children were just updated; reads after the liquidation need the accessor (checked below)
                    continue
                owners = working_for(chk.prog, f)
                ok = (f.qual, role) in RAW_READ_EXCEPTIONS or (bool(owners) and all((o.qual, role) in RAW_READ_EXCEPTIONS for o in owners))
                chk.ob("C08.R3b", ok, f.module, f.qual, "raw-read:%s" % node.attr,
                       "derived state of another node must be read through its refreshing accessor (.%s), not the cached field" % role.lower(),
                       where="%s:%d" % (f.module, node.lineno), expected="accessor read", found="%s.%s" % (ast.unparse(base), node.attr),
                       sample={"site": f.qual, "read": "%s.%s" % (ast.unparse(base), node.attr)})
    return n


def update_after_liquidation(chk, pid):
    if pid not in ("C01", "C08", "C16"):
        return
    _update_after_liquidation(chk, pid)


def _update_after_liquidation(chk, pid):
    """Inside StrategyBase.update the weight loop runs after the possible liquidation (flatten marks the tree
    stale): the children's values must be re-read through the refreshing accessors there."""
    R = Roles(chk.prog)
    S = chk.summary(CORE, "StrategyBase", "update", host="StrategyBase")
    fl = [c for c in S.calls("flatten") if c.recv == SELF]
    ww = [e for e in S.events if e.kind == "write" and e.field == R.WEIGHT and e.obj[0] == "elem" and canon(e.value) != canon(sym.ZERO)]
    if not fl:
        return
    # ... and that re-read refreshes the whole tree (a nested update of the root, which records the post-liquidation value, price and rows):
    # nothing computed before the liquidation may be recorded after it
    g_fl = G(fl[0])
    first_read = None
    for e in S.events:
        if (e.kind == "propread" and e.seq > fl[0].seq and isinstance(e.obj, tuple) and e.obj and e.obj[0] == "elem" and e.name in ("value", "notional_value", "weight", "price")
                and "flatten" not in [q_.split(".")[-1] for q_ in e.chain]
                and not sym.inconsistent(sym.sat(tuple(g_fl) + tuple(lits(plain(e.guard)))))):
            first_read = e
            break
    if first_read is not None:
        pt_ = fld(SELF, "_paper_trade")
        late = []
        for e in S.events:
            if e.seq <= first_read.seq or sym.inconsistent(sym.sat(tuple(g_fl) + tuple(lits(plain(e.guard))))) or has_lit(e.guard, pt_, True):
                continue
            if e.kind == "write" and e.obj == SELF and e.field in (R.VALUE, R.NOTIONAL, R.PRICE) and own_event(e, S.fn.qual):
                late.append(e)
            hs = hist_store(e)
            if hs and series_name(hs[0]) in (R.VALUES, R.NOTIONALS, R.PRICES) and own_event(e, S.fn.qual):
                fld_ = {R.VALUES: R.VALUE, R.NOTIONALS: R.NOTIONAL, R.PRICES: R.PRICE}[series_name(hs[0])]
                if not equal(hs[2], cur(e, SELF, fld_)):  # re-recording the (refreshed) field itself is harmless
                    late.append(e)
        chk.ob("C08.R3b", not late, CORE, "StrategyBase.update", "nothing-stale-recorded-after-liquidation",
               "the first read of a child's value after the liquidation refreshes the whole tree; value, price and their rows must have been recorded before that read - written after it, "
               "the pre-liquidation totals overwrite the refreshed ones", where=late[0].where if late else S.fn.where,
               expected="value / price / rows recorded before the children's values are re-read", found="; ".join(e.where for e in late)[:200])
    for w in ww:
        if w.seq < fl[0].seq:
            continue
        fi_atom = canon(fld(SELF, "_fixed_income"))
        ok = True
        for mode in (True, False):
            # one scenario per kind of strategy (the read may sit in an arm of a conditional expression)
            gm = sym.sat(tuple(G(w)) + ((fi_atom, mode),))
            if sym.inconsistent(gm):
                continue
            reads = [e for e in S.events if e.kind == "propread" and e.obj == w.obj and e.name in ("value", "notional_value") and e.seq < w.seq and e.loops == w.loops
                     and all(sym.lit_holds(gm, a, p_) for a, p_ in lits(plain(e.guard)))]
            ok = ok and bool(reads)
        reads = ok
        chk.ob("C08.R3b", bool(reads), CORE, "StrategyBase.update", "weights-after-liquidation-read-through-accessor",
               "after the liquidation inside update (which marks the tree stale) the children's values are re-read through the refreshing accessor", where=w.where,
               expected="c.value / c.notional_value", found="cached field read")


# ------------------------------------------------------------------------------------------------
# Recursion completeness (C19.R2 / C07.R5)


def _written_on_all_members(S, field, arg):
    """for node in self.members: node.<field> = arg   - members is the node and everything below it (its completeness is C19.R2's `members` rule)"""
    for w in S.events:
        if (w.kind == "write" and w.field == field and w.obj[0] == "elem" and canon(w.obj[1]) == canon(("prop", SELF, "members")) and canon(w.value) == canon(arg)
                and not plain(w.guard)):
            return True
    return False


def pushes_down(chk, F, pname, field, only_strats=False):
    """Does method F store its parameter `pname` in `field` of its node and hand the same value to the same method of ALL its children?"""
    S = chk.summary(F.module, F.cls, F.name, host=F.cls, no_inline=(F.name,))
    arg = canon(("param", pname))
    if not only_strats and _written_on_all_members(S, field, arg):
        return True
    w = S.writes(field, SELF)
    if not (w and canon(w[-1].value) == arg and not plain(w[-1].guard)):
        return False
    for e in S.calls(F.name):
        kind = child_receiver(e.recv, SELF)
        if kind is None:
            continue
        over_children = True
        b = bound_args(e, chk.prog).get(pname)
        filt = [l for l in plain(e.guard)]
        if only_strats:
            filt_ok = (all(selects_strategies(a, p) for a, p in filt) and len(filt) == 1) if kind == "all" else not filt
        else:
            filt_ok = not filt and kind == "all"
        if over_children and b is not None and canon(b) == arg and filt_ok:
            return True
    return False


def pushed_into_subtree(chk, S, c, value, field, within):
    """Within summary S: is `value` handed to a method of node c that pushes it into `field` of c and of every node below it (on the paths of event `within`)?"""
    for e in S.events:
        if e.kind != "call" or e.recv is None or canon(e.recv) != canon(c) or not e.callee or not guard_subset(e.guard, within.guard):
            continue
        cands = [F for F in e.callee if hasattr(F, "qual") and F.cls is not None]
        if not cands:
            continue
        for pname, a in bound_args(e, chk.prog).items():
            if canon(a) == canon(value) and all(pname in F.params and pushes_down(chk, F, pname, field) for F in cands):
                return e
    return None


def recursion_rules(chk, pid, which):
    """Each of these pushes a setting to every descendant: assign it, then recurse over ALL children with the same argument."""
    for cls, name, field, only_strats in which:
        fi = chk.prog.func(CORE, cls, name)
        S = chk.summary(CORE, cls, name, host=cls, no_inline=(name,))
        host = "%s.%s" % (cls, name)
        chk.site()
        arg = ("param", fi.params[1])
        if field is not None and not only_strats and _written_on_all_members(S, field, arg):
            from . import tree_rules

            tree_rules.full_name_members(chk, pid)
            chk.ob("C19.R2", True, CORE, host, "assign-on-all-members:%s" % field, "%s stores the pushed setting on the node and on every node below it" % host, where=fi.where)
            continue
        if field is not None:
            w = S.writes(field, SELF)
            ok = bool(w) and canon(w[-1].value) == canon(arg) and not plain(w[-1].guard)
            chk.ob("C19.R2", ok, CORE, host, "assign:%s" % field, "%s stores the pushed setting on the node" % host, where=fi.where, found=short(w[-1].value) if w else "no assignment")
        rec = [e for e in S.calls(name) if child_receiver(e.recv, SELF) is not None]
        ok = False
        for e in rec:
            kind = child_receiver(e.recv, SELF)
            over_children = True
            same_arg = e.args and canon(e.args[0]) == canon(arg)
            filt = [l for l in plain(e.guard)]
            if only_strats:
                filt_ok = (all(selects_strategies(a, p) for a, p in filt) and len(filt) == 1) if kind == "all" else not filt
            else:
                filt_ok = not filt and kind == "all"
            ok = ok or (over_children and same_arg and filt_ok)
        chk.ob("C19.R2", ok, CORE, host, "recurse-all-children", "%s reaches every %s below the node with the same argument" % (host, "sub-strategy" if only_strats else "descendant"),
               where=fi.where, expected="for c in children: c.%s(%s)" % (name, fi.params[1]), found="%d recursive call sites" % len(rec),
               sample={"host": host, "recursion": [repr(e)[:100] for e in rec]})


def set_commissions_rules(chk, pid):
    recursion_rules(chk, pid, [("StrategyBase", "set_commissions", "commission_fn", True)])



# ------------------------------------------------------------------------------------------------
# C10: guards, division guards, termination guard, writable history views


def nan_price_guard(chk, pid):
    """C10.R1: a NaN price on an open position raises before the value and the rows are written."""
    R = Roles(chk.prog)
    for K in SEC_CLASSES:
        fi = chk.prog.resolve(K, "update")
        S = chk.summary(fi.module, fi.cls, "update", host=K)
        host = "%s.update" % K
        ws = [w for w in S.writes(R.VALUE, SELF)]
        ok = bool(ws)
        for w in ws:
            p = cur(w, SELF, R.SPRICE)
            q = cur(w, SELF, R.POSITION)
            g = sym.sat(tuple(G(w)) + ((("isnan", canon(p)), True),))
            if sym.inconsistent(g):
                continue
            ok = ok and sym.lit_holds(g, ("zero", sym._abs_norm(sym.to_rat(q))), True)
        chk.ob("C10.R1", ok, fi.module, host, "guard:nan-price-open-position",
               "whenever the value is recomputed with a NaN price the position is known to be zero: a NaN price on an open position raises instead of recording a wrong value",
               where=fi.where, expected="raise under isnan(price) and not is_zero(position) on every path to the value write", found="%d value writes" % len(ws))
        rs = [e for e in S.raises if any(a[0] == "isnan" for a, p_ in G(e) if p_)]
        chk.ob("C10.R1", bool(rs), fi.module, host, "guard:nan-price-raises", "the NaN-price error is raised", where=fi.where)


def division_guards(chk, pid):
    """C10.R2: every division in the accounting engine has a denominator that is guarded against zero."""
    R = Roles(chk.prog)
    targets = [("StrategyBase", "update", ()), ("SecurityBase", "allocate", ("outlay", "transact", "update", "commission")), ("StrategyBase", "rebalance", ("close", "allocate", "transact", "update", "_create_child_if_needed"))]
    n = 0
    for cls, name, noinl in targets:
        S = chk.summary(CORE, cls, name, host=cls, no_inline=noinl)
        host = "%s.%s" % (cls, name)
        seen = set()
        for e in S.events:
            vals = []
            if e.kind == "write":
                vals.append(e.value)
            elif e.kind == "call":
                vals.extend(e.args or [])
            elif e.kind == "store":
                vals.append(e.value)
            for v in vals:
                for nd, conds in _walk_conds(v, ()):
                    if nd[0] == "/":
                        den = nd[2]
                        key = (canon(den), tuple(sorted((canon(c), p) for c, p in conds)))
                        if key in seen:
                            continue
                        seen.add(key)
                        if sym.to_rat(den).const_value() is not None:
                            continue
                        n += 1
                        chk.site()
                        extra = []
                        for c, p in conds:
                            extra.extend(sym.literals(c, p))
                        g = G(e, extra=tuple(extra))
                        if sym.inconsistent(g):
                            continue
                        ok = sym.lit_holds(g, ("zero", sym._abs_norm(sym.to_rat(den))), False)
                        den_r = sym.restrict(den, g)
                        if not ok:
                            try:
                                ok = sym.lit_holds(g, ("zero", sym._abs_norm(sym.to_rat(den_r))), False)
                            except ZeroDivisionError:
                                ok = False
                        if not ok:
                            factors = [a for a in sym.to_rat(den_r).atoms()]
                            price_like = [a for a in factors if a[0] == "fld" and a[2] == R.SPRICE]
                            if price_like and sym.lit_holds(g, ("zero", sym._abs_norm(sym.to_rat(price_like[0]))), False):
                                ok = True
                            if sym.contains(den_r, lambda x: x[0] in ("wl", "wlout")):
                                ok = True
                        chk.ob("C10.R2", ok, CORE, host, "division:%s" % short(den, 50), "a denominator in the accounting engine is tested against zero before the division", where=e.where,
                               expected="not is_zero(denominator) on the path", found=short(den_r, 140), sample={"denominator": short(den_r, 100)})
    chk.floor_count("C10.R2:divisions", n, 4)


def _walk_conds(v, conds):
    """Yield (node, enclosing phi conditions) for every node of a value."""
    if not isinstance(v, tuple) or not v:
        return
    if isinstance(v[0], str):
        yield v, conds
        if v[0] == "ite" and len(v) == 4:
            for x in _walk_conds(v[1], conds):
                yield x
            for x in _walk_conds(v[2], conds + ((v[1], True),)):
                yield x
            for x in _walk_conds(v[3], conds + ((v[1], False),)):
                yield x
            return
    for y in v:
        if isinstance(y, tuple):
            for x in _walk_conds(y, conds):
                yield x


def _conj_atoms(ls):
    parts = [a if p else ("not", a) for a, p in ls]
    if not parts:
        return ("bool", True)
    if len(parts) == 1:
        return parts[0]
    return ("and",) + tuple(parts)


def sizing_loop_cap(chk, pid):
    """C10.R3: every cycle of the sizing loop passes a counter increment and a cap test that raises (raise, not hang)."""
    S = chk.summary(CORE, "SecurityBase", "allocate", host="SecurityBase", no_inline=("outlay", "transact", "update", "commission"))
    host = "SecurityBase.allocate"
    chk.need(S.while_loops, "%s no longer has a sizing loop" % host)
    loop = S.while_loops[0]
    body = loop.body_state
    counters = [n for n in loop.names if body.locals.get(n) is not None and sym.equal(body.locals[n], ("+", ("wl", n, loop.lid), sym.ONE))]
    ok = False
    for e in S.raises:
        if not (e.loops and e.loops[-1] is loop):
            continue
        for a, p in plain(e.guard):
            if a[0] == "cmp" and any(sym.contains(a, lambda x, n=n: x == ("wl", n, loop.lid)) for n in counters):
                brk = set()
                for kind, ps in loop.pending:
                    if kind == "break":
                        ex = [l for l in plain(ps.guard) if l not in plain(loop.guard0)]
                        brk.add((canon(_conj_atoms(ex)), False))
                        for l in ex:
                            brk.add((canon(l[0]), not l[1]))
                rest = [l for l in plain(e.guard) if l not in plain(loop.guard0) and l != (a, p) and (canon(l[0]), l[1]) not in brk]
                ok = ok or not rest
    chk.ob("C10.R3", ok and bool(counters), CORE, host, "iteration-cap", "the search for the quantity cannot hang: a counter is incremented on every cycle and a cap raises", where=S.fn.where,
           expected="i = i + 1; if i > cap: raise", found="counters: %s" % counters)
    pre = [loop.pre.get(n) for n in counters]
    chk.ob("C10.R3", bool(pre) and all(v is not None and sym.to_rat(v).const_value() is not None for v in pre), CORE, host, "iteration-counter-initialised", "the counter starts from a constant", where=S.fn.where)


def writable_history_views(chk, pid):
    """C10.R4 T-RO: in-place history writes go through a view on which writing has been enabled (pandas >= 3 hands out read-only .values)."""
    import importlib.metadata as md

    try:
        pv = md.version("pandas")
    except Exception:
        pv = None
    major = int(pv.split(".")[0]) if pv else None
    chk.note("installed pandas: %s" % pv)
    setup_src = chk.prog.sources.get("setup.py", "")
    excluded = "pandas<3" in setup_src.replace(" ", "") or "pandas<=2" in setup_src.replace(" ", "")
    if major is None or major < 3 or excluded:
        chk.note("T-RO not applicable: installed pandas %s does not hand out read-only views, or setup.py excludes it" % pv)
        chk.ob("C10.R4", True, CORE, "<environment>", "read-only-views-not-applicable", "Series.values is writable under the installed pandas", sample={"pandas": pv})
        return
    n = 0
    for K in SEC_CLASSES + ["StrategyBase"]:
        fi = chk.prog.resolve(K, "update")
        S = chk.summary(fi.module, fi.cls, "update", host=K)
        host = "%s.update" % K
        for e in S.events:
            hs = hist_store(e)
            hf = hist_fill(e)
            if not hs and not hf:
                continue
            arr = e.base if hs else e.recv
            n += 1
            chk.site()
            if hs:
                chk.ob("C10.R4", is_inow(hs[1], guard=e.guard), fi.module, host, "write-index:%s:%d" % (series_name(hs[0]), e.line),
                       "an in-place history write addresses exactly the current row (a None or stale index would overwrite other dates or fail)", where=e.where,
                       expected="resolved inow", found=short(hs[1], 120))
            enabling = [w for w in S.events if w.kind == "write" and w.field == "writeable" and w.seq < e.seq and canon(w.value) == canon(sym.TRUE) and w.obj[0] == "attr" and w.obj[2] == "flags"
                        and canon(w.obj[1]) == canon(arr)]
            ok = bool(enabling)
            sn = series_name(hs[0]) if hs else series_name(hf[0])
            chk.ob("C10.R4", ok, fi.module, host, "writable-view:%s:%d" % (sn, e.line),
                   "under the installed pandas (%s) Series.values is read-only: an in-place history write must go through a view on which writing was enabled" % pv, where=e.where,
                   expected="flags.writeable = True on the very view that is written", found="direct write through a read-only view" if not ok else "enabled",
                   sample={"series": sn, "pandas": pv})
    chk.floor_count("C10.R4:in-place history writes", n, 15)


# ------------------------------------------------------------------------------------------------
# refresh-before-trade (C02 / C05 / C08): a security that lags behind its parent's date is brought up to date before it is priced


def refresh_before_trade(chk, pid):
    R = Roles(chk.prog)
    for name in ("allocate", "transact"):
        S = chk.summary(CORE, "SecurityBase", name, host="SecurityBase", no_inline=("outlay", "transact", "update", "commission"))
        host = "SecurityBase.%s" % name
        ups = [e for e in S.calls("update") if e.recv == SELF]
        users = [e for e in S.calls("outlay") + S.calls("transact") if e.recv == SELF]
        chk.need(users, "%s no longer prices the trade" % host)
        ok = bool(ups) and all(ups[0].seq < u.seq for u in users)
        chk.ob("C02.R5", ok, CORE, host, "refresh-precedes-pricing", "a security is refreshed before it is priced for a trade", where=S.fn.where)
        if not ups:
            continue
        u = ups[0]
        a0 = u.args[0] if u.args else None
        okd = a0 is not None and a0[0] == "fld" and a0[2] == "now" and a0[1][0] == "fld" and a0[1][2] == "parent" and canon(a0[1][1]) == canon(SELF)
        chk.ob("C02.R5", okd, CORE, host, "refresh-to-tree-date",
               "before a trade the security is refreshed to its own PARENT's current date (the node that trades it; a copied sub-tree's root pointer may be stale)", where=u.where,
               expected="self.update(self.parent.now)", found=short(a0) if a0 else "?")
        # the refresh must happen in both lagging scenarios: needupdate set, or the clock differs from the parent's
        need = fld(SELF, R.NEEDUPDATE)
        same = ("cmp", "==", fld(SELF, "now"), fld(fld(SELF, "parent"), "now"))
        base = [(("param", "update_self"), True)] if "update_self" in S.fn.params else []
        scen = {"needupdate": base + [(need, True), (canon(same), True)], "lagging-clock": base + [(need, False), (canon(same), False)]}
        for k, lits_ in scen.items():
            g = sym.sat(lits_)
            ok = all(sym.lit_holds(g, a, p) for a, p in plain(u.guard))
            chk.ob("C02.R5", ok, CORE, host, "refresh-when:%s" % k, "the refresh is performed whenever the security needs an update or its clock lags behind its parent's", where=u.where,
                   expected="update under needupdate or now != parent.now", found=sym.fmt_guard(plain(u.guard)), sample={"scenario": k, "guard": sym.fmt_guard(plain(u.guard))})



# ------------------------------------------------------------------------------------------------
# security setup: where the price / spread / coupon series and the history columns come from

SEC_SETUP_REF = '''
def ref(self, universe, **kwargs):
    try:
        prices = universe[self.name]
    except KeyError:
        prices = None
    if prices is not None:
        self._prices = prices
        self.data = pd.DataFrame(
            index=universe.index,
            columns=["value", "position", "notional_value"],
            data=0.0,
        )
        self._prices_set = True
    else:
        self.data = pd.DataFrame(
            index=universe.index,
            columns=["price", "value", "position", "notional_value"],
        )
        self._prices = self.data["price"]
        self._prices_set = False
    self._values = self.data["value"]
    self._notl_values = self.data["notional_value"]
    self._positions = self.data["position"]
    self.data["outlay"] = 0.0
    self._outlays = self.data["outlay"]
    if "bidoffer" in kwargs:
        self._bidoffer_set = True
        self._bidoffers = kwargs["bidoffer"]
        try:
            bidoffers = self._bidoffers[self.name]
        except KeyError:
            bidoffers = None
        if bidoffers is not None:
            if bidoffers.index.equals(universe.index):
                self._bidoffers = bidoffers
            else:
                raise ValueError("Index of bidoffer must match universe data")
        else:
            self.data["bidoffer"] = 0.0
            self._bidoffers = self.data["bidoffer"]
        self.data["bidoffer_paid"] = 0.0
        self._bidoffers_paid = self.data["bidoffer_paid"]
'''

COUPON_SETUP_REF = '''
def ref(self, universe, **kwargs):
    super(CouponPayingSecurity, self).setup(universe, **kwargs)
    if "coupons" not in kwargs:
        raise Exception(\'"coupons" must be passed to setup for a CouponPayingSecurity\')
    try:
        self._coupons = kwargs["coupons"][self.name]
    except KeyError:
        self._coupons = None
    if self._coupons is None or not self._coupons.index.equals(universe.index):
        raise ValueError("Index of coupons must match universe data")
    try:
        self._cost_long = kwargs["cost_long"][self.name]
    except KeyError:
        self._cost_long = None
    try:
        self._cost_short = kwargs["cost_short"][self.name]
    except KeyError:
        self._cost_short = None
    self.data["coupon"] = 0.0
    self.data["holding_cost"] = 0.0
    self._coupon_income = self.data["coupon"]
    self._holding_costs = self.data["holding_cost"]
'''


HISTORY_COLUMNS = {"price", "value", "notional_value", "cash", "fees", "flows", "bidoffer_paid", "position", "outlay", "bidoffer", "coupon", "holding_cost"}


def float_history_tables(chk, pid):
    """The per-date history tables are float tables: update() writes into them in place, and an integer column silently truncates what is written.
    Anywhere in core.py, a history column must not start from an integer literal (`{"flows": 0}`, `data["outlay"] = 0`, DataFrame(0, ...))."""
    n = 0
    for f in chk.prog.all_functions(modules=(CORE,)):
        owners = [o.name for o in working_for(chk.prog, f)] or [f.name]
        if "setup" not in owners and f.name != "setup":
            continue
        for node in ast.walk(f.node):
            bad = None
            if isinstance(node, ast.Dict):
                for k_, v_ in zip(node.keys, node.values):
                    if isinstance(k_, ast.Constant) and k_.value in HISTORY_COLUMNS and isinstance(v_, ast.Constant) and isinstance(v_.value, int) and not isinstance(v_.value, bool):
                        bad = "%r: %r" % (k_.value, v_.value)
                n += 1 if any(isinstance(k_, ast.Constant) and k_.value in HISTORY_COLUMNS for k_ in node.keys) else 0
            elif isinstance(node, ast.Assign) and len(node.targets) == 1 and isinstance(node.targets[0], ast.Subscript):
                sl = node.targets[0].slice
                if isinstance(sl, ast.Constant) and sl.value in HISTORY_COLUMNS:
                    n += 1
                    if isinstance(node.value, ast.Constant) and isinstance(node.value.value, int) and not isinstance(node.value.value, bool):
                        bad = "[%r] = %r" % (sl.value, node.value.value)
            elif isinstance(node, ast.Call) and isinstance(node.func, ast.Attribute) and node.func.attr == "DataFrame":
                n += 1
                fill = node.args[0] if node.args else next((k_.value for k_ in node.keywords if k_.arg == "data"), None)
                if isinstance(fill, ast.Constant) and isinstance(fill.value, int) and not isinstance(fill.value, bool):
                    bad = "DataFrame(%r, ...)" % fill.value
            if bad:
                chk.ob("C02.R6", False, CORE, f.qual, "float-history:%s" % bad, "history columns start from float zeros: update() writes into them in place and an integer column truncates "
                       "what is written (fractional positions, flows, fees)", where="%s:%d" % (f.module, node.lineno), expected="0.0", found=bad)
    chk.ob("C02.R6", n >= 3, CORE, "setup", "float-history-sites", "the history tables are created in setup", where=CORE, found="%d creation sites" % n)


def security_setup_rules(chk, pid):
    float_history_tables(chk, pid)
    from .algo_equiv import check_equiv

    if pid in ("C01", "C04", "C19", "C07", "C02", "C18"):
        check_equiv(chk, "C01.R8", CORE, "SecurityBase", "setup", SEC_SETUP_REF, "security-setup",
                    "a security binds its own column of the universe as its price series (or an own empty column when the universe has none), its own history columns, and - when bid/offer "
                    "data is supplied - its own column of it, index-checked", limit=14)
    if pid in ("C17", "C04", "C07", "C10"):
        check_equiv(chk, "C17.R2", CORE, "CouponPayingSecurity", "setup", COUPON_SETUP_REF, "coupon-setup",
                    "a coupon-paying security binds its own coupon column (mandatory, index-checked) and optional long/short holding-cost columns", no_inline=("setup",), limit=14)
