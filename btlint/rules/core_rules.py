"""Rule instances over bt/core.py's accounting engine (update family, mutators, accessors).

Every function takes the Check and the property id it is being evaluated for; the attribution
(which instance fires for which property) follows DESIGN Appendix E and is decided here.
"""

import ast

from .. import sym
from ..evalfn import SELF, property_backing
from ..source import AnalysisError
from ..sym import canon
from .common import (CORE, G, plain, Roles, cur, dominates, final_value, fld, guard_subset, has_lit, hist_fill, hist_store, is_entry, lits, loops_prefix,
                     mentions_field, mentions_param, postdominates, series_name, short)

SEC_CLASSES = ["SecurityBase", "Security", "FixedIncomeSecurity", "CouponPayingSecurity", "HedgeSecurity", "CouponPayingHedgeSecurity"]
NOTL_KIND = {"SecurityBase": "value", "Security": "value", "FixedIncomeSecurity": "position", "CouponPayingSecurity": "position", "HedgeSecurity": "zero",
             "CouponPayingHedgeSecurity": "zero"}

DATE = ("param", "date")
INOW = ("param", "inow")


def norm_versions(v):
    """Collapse havoc epochs: 0 (entry) stays, every later version becomes 1 ('after the call')."""
    if isinstance(v, tuple):
        if v and v[0] == "fld" and len(v) == 4:
            return ("fld", norm_versions(v[1]), v[2], 0 if v[3] == 0 else 1)
        return tuple(norm_versions(x) for x in v)
    if isinstance(v, frozenset):
        return frozenset(norm_versions(x) for x in v)
    return v


def equal(a, b):
    return sym.equal(norm_versions(a), norm_versions(b))


def is_inow(v, obj=SELF):
    """Row index is the `inow` parameter, `data.index.get_loc(date)`, or 0 when the date is 0."""
    v = _strip(v)
    if v == INOW:
        return True
    if v[0] == "ite":
        c = canon(v[1])
        if c[0] == "isnone" and (c[1] == INOW or is_inow(_uncanon_hint(v[3]), obj)) and canon(v[3]) == c[1]:
            return is_inow(v[3], obj) and _inow_fallback(v[2])
        if c[0] == "not" and c[1][0] == "isnone" and canon(v[2]) == c[1][1]:
            return is_inow(v[2], obj) and _inow_fallback(v[3])
    return False


def _uncanon_hint(v):
    return v


def _inow_fallback(v):
    v = _strip(v)
    if v[0] == "ite":
        c = canon(v[1])
        z_date = canon(("cmp", "==", DATE, sym.ZERO))
        z_now = None
        if c == z_date or (c[0] == "zero"):
            return canon(v[2]) == canon(sym.ZERO) and _is_get_loc(v[3])
        if c[0] == "not":
            return canon(v[3]) == canon(sym.ZERO) and _is_get_loc(v[2])
        return False
    return _is_get_loc(v)


def _is_get_loc(v):
    v = _strip(v)
    return v[0] == "mcall" and v[2] == "get_loc" and len(v[3]) == 1 and (v[3][0] == DATE or (v[3][0][0] == "fld" and v[3][0][2] == "now")) and v[1][0] == "attr" and v[1][2] == "index"


def _strip(v):
    return v


def early_return_atoms(R):
    date_same = canon(("cmp", "==", DATE, fld(SELF, "now")))
    return date_same


# ------------------------------------------------------------------------------------------------
# Security update family


def security_update(chk, pid):
    """C01.R1 / C17.R1 / C01.R4 / C08.R1 / C08.R4 / C07.R4 on every security class's `update`."""
    R = Roles(chk.prog)
    prog = chk.prog
    date_same = canon(("cmp", "==", DATE, fld(SELF, "now")))
    for K in SEC_CLASSES:
        if K not in prog.classes:
            raise AnalysisError("anchor missing: class %s" % K)
        fi = prog.resolve(K, "update")
        chk.need(fi is not None, "anchor missing: %s.update" % K)
        S = chk.summary(fi.module, fi.cls, "update", host=K)
        chk.site()
        host = "%s.update" % K
        pos0 = fld(SELF, R.POSITION)
        writes_value = S.writes(R.VALUE, SELF)
        chk.need(writes_value, "%s no longer assigns the value field" % host)
        n_exits_checked = 0
        for st, _rv in S.exits:
            g0 = G(st)
            v_all = sym.restrict(final_value(st, SELF, R.VALUE), g0)
            for cg, leaf in sym.cases(v_all):
                gg = sym.sat(tuple(g0) + tuple(cg))
                if is_entry(leaf, SELF, R.VALUE):
                    # ---- C08.R1 / C01: the shortcut is taken only when neither date nor position changed
                    if pid in ("C01", "C08", "C02"):
                        ok_date = sym.lit_holds(gg, date_same, True)
                        ok_pos = any(p and a[0] == "cmp" and a[1] == "==" and mentions_field(a, R.POSITION, SELF) for a, p in gg)
                        chk.ob("C08.R1", ok_date and ok_pos, fi.module, host, "early-return-condition",
                               "the shortcut exit of %s must be taken only when the date is unchanged and the position equals the last recorded position" % host,
                               where=fi.where, expected="date == now and last position == position", found=sym.fmt_guard(cg) or sym.fmt_guard(st.guard),
                               sample={"exit_guard": sym.fmt_guard(tuple(st.guard) + tuple(cg))[:200]})
                    continue
                n_exits_checked += 1
                p_final = sym.restrict(final_value(st, SELF, R.SPRICE), gg)
                m_final = sym.restrict(final_value(st, SELF, "multiplier"), gg)
                q_final = sym.restrict(final_value(st, SELF, R.POSITION), gg)
                # ---- C01.R1: value == position * price * multiplier (0 when the price is NaN and flat)
                if pid in ("C01", "C02"):
                    nan = sym.lit_holds(gg, ("isnan", canon(p_final)), True)
                    if nan:
                        ok = canon(leaf) == canon(sym.ZERO) and sym.lit_holds(gg, ("zero", sym._abs_norm(sym.to_rat(q_final))), True)
                        exp = "0 under NaN price and zero position"
                    else:
                        ok = equal(leaf, ("*", ("*", q_final, p_final), m_final))
                        exp = "position * price * multiplier"
                    chk.ob("C01.R1", ok, fi.module, host, "value-formula:%s" % ("nan" if nan else "priced"),
                           "security value must be position x current price x multiplier", where=fi.where, expected=exp, found=short(leaf),
                           sample={"value": short(leaf), "guard": sym.fmt_guard(cg)[:160]})
                # ---- C17.R1 / C01.R1c: notional value per class
                if pid in ("C17", "C01"):
                    n_final = sym.restrict(final_value(st, SELF, R.NOTIONAL), gg)
                    kind = NOTL_KIND[K]
                    exp_v = {"value": leaf, "position": q_final, "zero": sym.ZERO}[kind]
                    ok = equal(n_final, exp_v)
                    if pid == "C17" or kind == "value":
                        chk.ob("C17.R1", ok, fi.module, host, "notional:%s" % kind,
                               "notional value of %s must be its %s" % (K, {"value": "market value", "position": "position (par)", "zero": "zero"}[kind]), where=fi.where,
                               expected=kind, found=short(n_final), sample={"notional": short(n_final)})
                # ---- last-position tracking (supports the shortcut)
                if pid in ("C01", "C08"):
                    lp = _last_pos_field(S, R)
                    if lp is not None:
                        lpv = sym.restrict(final_value(st, SELF, lp), gg)
                        chk.ob("C08.R1", equal(lpv, q_final), fi.module, host, "last-position-snapshot",
                               "the position remembered for the shortcut must be refreshed whenever the security is marked", where=fi.where,
                               expected="last position := position", found=short(lpv))
                    else:
                        chk.ob("C08.R1", False, fi.module, host, "last-position-snapshot", "the shortcut must compare the position with the last recorded position", where=fi.where)
                # ---- rows
                _rows_case(chk, pid, S, fi, host, R, K, st, gg)
        chk.need(n_exits_checked > 0, "%s has no exit that recomputes the value" % host)
        # ---- rows: C08.R4 append-only
        _rows_index(chk, pid, S, fi, host, R, K)
        # ---- C08.R1: price / spread refresh and bid-offer reset only on a date change
        if pid in ("C08", "C07") and K == "SecurityBase":
            for w in S.writes(None, SELF):
                if w.field in (R.SPRICE, R.BIDOFFER) and pid == "C08":
                    ok = has_lit(w.guard, date_same, False)
                    chk.ob("C08.R1", ok, fi.module, host, "refresh-under-date-change:%s" % w.field,
                           "%s is refreshed from the data only when the date changed" % w.field, where=w.where, expected="under date != now",
                           found=sym.fmt_guard(w.guard))
                if w.field == R.BIDOFFER_PAID and canon(w.value) == canon(sym.ZERO):
                    ok = has_lit(w.guard, date_same, False)
                    chk.ob("C08.R1", ok, fi.module, host, "bidoffer-paid-reset", "the per-date bid/offer accumulator is zeroed only when the date changed",
                           where=w.where, expected="under date != now", found=sym.fmt_guard(w.guard))
        # ---- C01.R5: needupdate typestate
        if pid in ("C01", "C02") and K == "SecurityBase":
            nws = S.writes(R.NEEDUPDATE, SELF)
            for w in nws:
                if canon(w.value) == canon(sym.FALSE):
                    qv = cur(w, SELF, R.POSITION)
                    wv = cur(w, SELF, R.WEIGHT)
                    ok = (has_lit(w.guard, ("zero", sym._abs_norm(sym.to_rat(qv))), True) and has_lit(w.guard, ("zero", sym._abs_norm(sym.to_rat(wv))), True))
                    chk.ob("C01.R5", ok, fi.module, host, "needupdate-off-only-when-flat",
                           "a security may be dropped from the update loop only when both its weight and its position are zero", where=w.where,
                           expected="under is_zero(weight) and is_zero(position)", found=sym.fmt_guard(w.guard), sample={"guard": sym.fmt_guard(w.guard)})
                    vw = [x for x in S.writes(R.VALUE, SELF) if x.seq < w.seq]
                    chk.ob("C01.R5", bool(vw), fi.module, host, "needupdate-off-after-value", "the flag is cleared only after the value has been recomputed",
                           where=w.where)
        # ---- C07.R4 / C08.R2: outlay flush and reset
        if pid in ("C07", "C08") and K == "SecurityBase":
            _outlay_flush(chk, pid, S, fi, host, R)


def _last_pos_field(S, R):
    """The field compared with POSITION in the shortcut test (role LAST(position))."""
    seen = []
    for e in S.events:
        for a, p in e.guard:
            for n in sym.walk(a):
                if n[0] == "cmp" and n[1] == "==" and mentions_field(n, R.POSITION, SELF):
                    names = set()
                    for m in sym.walk(n):
                        if m[0] == "fld" and m[2] != R.POSITION and canon(m[1]) == canon(SELF):
                            names.add(m[2])
                    if len(names) == 1:
                        seen.append(names.pop())
    return seen[0] if seen else None


def _pairs_for(K, R, prog):
    pairs = [(R.VALUE, R.SVALUES, "C01"), (R.NOTIONAL, R.SNOTIONALS, "C01"), (R.POSITION, R.POSITIONS, "C01"), (R.BIDOFFER_PAID, R.BIDOFFERS_PAID, "C07")]
    if prog.is_subclass(K, "CouponPayingSecurity"):
        pairs += [(R.COUPON, R.COUPONS, "C17"), (R.HOLDING_COST, R.HOLDING_COSTS, "C17")]
    return pairs


def _rows_index(chk, pid, S, fi, host, R, K):
    """C08.R4 append-only: every in-place history write is at the current index."""
    stores = [(e, hist_store(e)) for e in S.events if hist_store(e)]
    fills = [(e, hist_fill(e)) for e in S.events if hist_fill(e)]
    if pid in ("C08",):
        for e, (ser, idx, val, aug) in stores:
            sn = series_name(ser)
            ok = is_inow(idx)
            chk.ob("C08.R4", ok, fi.module, host, "row-index:%s" % sn, "history rows are written only at the current index", where=e.where,
                   expected="index inow / get_loc(date) / 0 on the first update", found=short(idx), sample={"series": sn, "index": short(idx)})
        for e, (ser, val) in fills:
            sn = series_name(ser)
            ok = NOTL_KIND.get(K) == "zero" and sn == R.SNOTIONALS and val is not None and canon(val) == canon(sym.ZERO)
            chk.ob("C08.R4", ok, fi.module, host, "whole-series-fill:%s" % sn,
                   "a whole-series in-place write is allowed only for the identically-zero notional series of hedge securities", where=e.where, found=short(val))


def _rows_case(chk, pid, S, fi, host, R, K, st, gg):
    """T-PAIR on one non-shortcut case of one exit: each cached field's row is written, at inow, from the field's final value."""
    stores = [(e, hist_store(e)) for e in S.events if hist_store(e)]
    fills = [(e, hist_fill(e)) for e in S.events if hist_fill(e)]
    for field, series, owner in _pairs_for(K, R, chk.prog):
        attributed = (pid == owner) or (pid == "C17" and field == R.NOTIONAL and NOTL_KIND.get(K) != "value")
        if not attributed:
            continue
        if NOTL_KIND.get(K) == "zero" and field == R.NOTIONAL:
            ok = any(series_name(ser) == series for _, (ser, _v) in fills) or any(series_name(hs[0]) == series for _, hs in stores)
            chk.ob("C01.R4", ok, fi.module, host, "row:%s" % series, "the notional row of a hedge security is recorded as zero", where=fi.where)
            continue
        fv = sym.restrict(final_value(st, SELF, field), gg)
        cands = [(e, hs) for e, hs in stores if series_name(hs[0]) == series and guard_subset([l for l in e.guard if not _feature_flag(l)], gg)]
        if field == R.BIDOFFER_PAID:
            # optional feature: the row exists only when bid/offer accounting is on
            flagged = [(e, hs) for e, hs in stores if series_name(hs[0]) == series]
            if not flagged:
                chk.ob("C01.R4", False, fi.module, host, "row:%s" % series, "the %s row must be recorded" % series, where=fi.where)
                continue
            cands = cands or [x for x in flagged if guard_subset([l for l in x[0].guard if not _feature_flag(l)], gg)]
        if not cands:
            anyst = [(e, hs) for e, hs in stores if series_name(hs[0]) == series]
            chk.ob("C01.R4", False, fi.module, host, "row:%s" % series, "the %s row must be recorded on every path that recomputes %s" % (series, field),
                   where=fi.where, expected="store into %s at inow" % series,
                   found="no store" if not anyst else "store only under %s" % sym.fmt_guard(anyst[-1][0].guard)[:200])
            continue
        e, (ser, idx, val, aug) = cands[-1]
        val = sym.restrict(val, gg)
        ok = aug is None and equal(val, fv) and is_inow(idx)
        chk.ob("C01.R4", ok, fi.module, host, "row:%s" % series, "the %s row must equal the end-of-update %s" % (series, field), where=e.where,
               expected=short(fv), found=short(val), sample={"series": series, "field": field, "stored": short(val)})


def _feature_flag(l):
    a, p = l
    return a[0] == "fld" and a[2] in ("_bidoffer_set",) and p


def _outlay_flush(chk, pid, S, fi, host, R):
    stores = [(e, hist_store(e)) for e in S.events if hist_store(e)]
    flushes = [(e, hs) for e, hs in stores if series_name(hs[0]) == R.OUTLAYS]
    chk.need(flushes, "%s no longer records outlays" % host)
    for e, (ser, idx, val, aug) in flushes:
        acc = None
        for n in sym.walk(val):
            if n[0] == "fld" and canon(n[1]) == canon(SELF):
                acc = n[2]
        ok_aug = aug == "+" and acc is not None and equal(val, cur(e, SELF, acc))
        chk.ob("C07.R4", ok_aug, fi.module, host, "outlay-flush", "the pending outlay is added to the date's outlay row", where=e.where,
               expected="row += pending outlay", found="row %s= %s" % (aug or "", short(val)))
        if acc is None:
            continue
        resets = [w for w in S.writes(acc, SELF) if w.seq > e.seq and canon(w.value) == canon(sym.ZERO) and guard_subset(w.guard, e.guard)]
        chk.ob("C07.R4" if pid == "C07" else "C08.R2", bool(resets), fi.module, host, "outlay-reset-after-flush",
               "the pending outlay is zeroed right after it has been flushed (otherwise a repeated update books it twice)", where=e.where,
               expected="%s = 0 after the flush, on the same path" % acc, found="no reset on the flush path")
    # no other augmented (non-idempotent) history write
    if pid == "C08":
        for e, (ser, idx, val, aug) in stores:
            if aug is not None and series_name(ser) != R.OUTLAYS:
                chk.ob("C08.R2", False, fi.module, host, "non-idempotent-row:%s" % series_name(ser), "history rows are assigned, not accumulated, so that a repeated update is idempotent",
                       where=e.where, found="%s[...] %s= ..." % (series_name(ser), aug))


# ------------------------------------------------------------------------------------------------
# Coupon-paying securities (C17.R2, C02 accrual kind)

COUPON_REF = '''
def ref(self, coupon, cost_long, cost_short):
    if self._position > 0 and self._cost_long is not None:
        hc = self._position * cost_long
    elif self._position < 0 and self._cost_short is not None:
        hc = -self._position * cost_short
    else:
        hc = 0.0
    return hc
'''


def coupon_accrual(chk, pid):
    R = Roles(chk.prog)
    for K in ("CouponPayingSecurity", "CouponPayingHedgeSecurity"):
        fi = chk.prog.resolve(K, "update")
        S = chk.summary(fi.module, fi.cls, "update", host=K)
        host = "%s.update" % K
        chk.site()
        for st, _ in S.exits:
            cfin = final_value(st, SELF, R.COUPON)
            if all(is_entry(leaf, SELF, R.COUPON) for _, leaf in sym.cases(cfin)):
                continue
            q = final_value(st, SELF, R.POSITION)
            # coupon = position * coupon[inow]; 0 when NaN and flat
            for g, leaf in sym.cases(cfin):
                gg = lits(tuple(st.guard) + tuple(g))
                cpn = _row_read(leaf, "_coupons")
                nanlit = [a for a, p in gg if p and a[0] == "isnan"]
                if nanlit and canon(leaf) == canon(sym.ZERO):
                    ok = sym.lit_holds(gg, ("zero", sym._abs_norm(sym.to_rat(q))), True)
                    chk.ob("C17.R2", ok, fi.module, host, "coupon:nan", "a NaN coupon is tolerated only on a flat position", where=fi.where, found=sym.fmt_guard(g))
                else:
                    ok = cpn is not None and equal(leaf, ("*", q, cpn)) and is_inow(cpn[2])
                    chk.ob("C17.R2", ok, fi.module, host, "coupon:formula", "coupon accrued = position x coupon at the current row", where=fi.where,
                           expected="position * coupons[inow]", found=short(leaf), sample={"coupon": short(leaf)})
            # holding cost
            hfin = final_value(st, SELF, R.HOLDING_COST)
            for g, leaf in sym.cases(hfin):
                gg = lits(tuple(st.guard) + tuple(g))
                pos_lt = sym.lit_holds(gg, ("cmp", "<", q, sym.ZERO), True) if False else None
                cl = _row_read(leaf, "_cost_long")
                cs = _row_read(leaf, "_cost_short")
                long_side = sym.lit_holds(gg, canon(("cmp", ">", q, sym.ZERO)), True)
                short_side = sym.lit_holds(gg, canon(("cmp", "<", q, sym.ZERO)), True)
                if cl is not None:
                    ok = long_side and equal(leaf, ("*", q, cl)) and is_inow(cl[2])
                    exp = "position * cost_long[inow] under position > 0"
                elif cs is not None:
                    ok = short_side and equal(leaf, ("neg", ("*", q, cs))) and is_inow(cs[2])
                    exp = "-position * cost_short[inow] under position < 0"
                else:
                    ok = canon(leaf) == canon(sym.ZERO)
                    exp = "0 when flat or no cost data"
                chk.ob("C17.R2", ok, fi.module, host, "holding-cost:%s" % ("long" if cl is not None else "short" if cs is not None else "none"),
                       "holding cost is charged on the absolute position with the long/short schedule", where=fi.where, expected=exp, found=short(leaf),
                       sample={"holding_cost": short(leaf), "guard": sym.fmt_guard(g)})
            # parked amount
            capfin = final_value(st, SELF, R.CAPITAL)
            ok = equal(capfin, ("-", cfin, hfin))
            chk.ob("C17.R2", ok, fi.module, host, "parked-carry", "the security parks coupon minus holding cost for the parent to sweep", where=fi.where,
                   expected="coupon - holding_cost", found=short(capfin))
        # C10.R1 guard: NaN coupon with open position raises before the capital is set
        if pid == "C10":
            raises = [e for e in S.raises if any(a[0] == "isnan" and _row_read(a, "_coupons") is not None for a, p in e.guard if p)]
            capw = S.writes(R.CAPITAL, SELF)
            ok = bool(raises) and all(any(r.seq < w.seq for r in raises) for w in capw)
            chk.ob("C10.R1", ok, fi.module, host, "guard:nan-coupon-open-position", "a NaN coupon on an open position must raise before anything is accrued",
                   where=fi.where, expected="raise under isnan(coupon) and not is_zero(position)", found="%d matching raise sites" % len(raises))
            for r in raises:
                q = cur(r, SELF, R.POSITION)
                ok = has_lit(r.guard, ("zero", sym._abs_norm(sym.to_rat(q))), False)
                chk.ob("C10.R1", ok, fi.module, host, "guard:nan-coupon-open-position:cond", "the NaN-coupon error is raised exactly for open positions", where=r.where,
                       found=sym.fmt_guard(r.guard))


def _row_read(v, series):
    """Find a sub-value `self.<series>.values[idx]` inside v."""
    for n in sym.walk(v):
        if n[0] == "sub" and n[1][0] == "attr" and n[1][2] == "values" and n[1][1][0] == "fld" and n[1][1][2] == series:
            return n
    return None


# ------------------------------------------------------------------------------------------------
# StrategyBase.update

STRAT_VALUE_REF = '''
def ref(self, date, data, inow, newpt):
    val = self._capital
    notl = 0.0
    coupons = 0
    for c in self._childrenv:
        if c._issec and newpt:
            coupons += c._capital
        if c._issec and not c._needupdate:
            continue
        c.update(date, data, inow)
        val += c.value
        notl += abs(c.notional_value)
    return val + coupons, notl, self._capital + coupons
'''


def _newpt(R):
    now0 = fld(SELF, "now")
    return ("or", ("cmp", "==", now0, sym.ZERO), ("cmp", "!=", DATE, now0))


def strategy_update(chk, pid):
    R = Roles(chk.prog)
    prog = chk.prog
    fi = prog.func(CORE, "StrategyBase", "update")
    S = chk.summary(CORE, "StrategyBase", "update", host="StrategyBase")
    host = "StrategyBase.update"
    chk.site()
    newpt = _newpt(R)
    date_changed = canon(("cmp", "!=", DATE, fld(SELF, "now")))
    ref = chk.ref(STRAT_VALUE_REF.replace("_capital", R.CAPITAL).replace("_needupdate", R.NEEDUPDATE), "StrategyBase", bindings={"newpt": newpt})
    rv = ref.exits[-1][1]
    ref_val, ref_notl, ref_cap = rv[1], rv[2], rv[3]
    children_truthy = canon(fld(SELF, "children"))

    def children_cases(v):
        """split on the `if self.children:` wrapper; the no-children case must equal the reference with empty sums"""
        return sym.split_cases(v)

    def empty_children(g):
        return any((not p) and canon(a) == children_truthy for a, p in g) or any(p and canon(a) == canon(("isnone", fld(SELF, "children"))) for a, p in g)

    def drop_sums(v):
        if isinstance(v, tuple):
            if v and v[0] == "sum":
                return sym.ZERO
            return tuple(drop_sums(x) for x in v)
        return v

    vw = S.writes(R.VALUE, SELF)
    chk.need(vw, "%s no longer assigns the value field" % host)
    the_val = vw[-1].value
    # ---- C01.R2 / C02: value = cash + sum of (updated) children + swept coupons
    if pid in ("C01", "C02", "C07", "C17"):
        for w in vw:
            for g, v in children_cases(w.value):
                exp = drop_sums(ref_val) if empty_children(g) else ref_val
                ok = equal(v, exp)
                if pid in ("C01", "C02"):
                    chk.ob("C01.R2", ok, CORE, host, "strategy-value", "a strategy's value is its cash plus the sum of its children's values (plus the coupons swept this step)",
                           where=w.where, expected=short(exp, 300), found=short(v, 300), sample={"value": short(v, 200)})
        # the sweep: what is added to cash is what is removed from the children
        capw = S.writes(R.CAPITAL, SELF)
        own = [w for w in capw if w.chain == (S.fn.qual,)]
        chk.need(own, "%s no longer sweeps child cash into the strategy's cash" % host)
        wcap = own[-1]
        for g, v in children_cases(wcap.value):
            exp = drop_sums(ref_cap) if empty_children(g) else ref_cap
            ok = equal(v, exp)
            chk.ob("C02.R3", ok, CORE, host, "sweep-credit", "exactly the securities' parked cash is added to the strategy's cash, once", where=wcap.where,
                   expected=short(exp, 240), found=short(v, 240), sample={"cash_after_sweep": short(v, 200)})
        zeroed = [w for w in S.events if w.kind == "write" and w.field == R.CAPITAL and w.obj[0] == "elem" and canon(w.value) == canon(sym.ZERO)]
        ok = bool(zeroed)
        issec_newpt = None
        if zeroed:
            z = zeroed[0]
            # the zeroing and the accumulation sit under the same gate: compare with the gate of the reference sum
            refsum_guards = [n[2] for n in sym.walk(ref_cap) if n[0] == "sum"]
            zg = tuple(l for l in lits(z.guard) if sym.contains(l[0], lambda n: n[0] == "elem") or sym.contains(l[0], lambda n: n == DATE))
            ok = any(set(norm_versions(rg)) == set(norm_versions(tuple(sorted(zg, key=repr)))) for rg in refsum_guards)
        chk.ob("C02.R3", ok, CORE, host, "sweep-debit", "every child whose cash is swept is zeroed under the same condition (security child, new date)",
               where=zeroed[0].where if zeroed else fi.where, expected="c.capital = 0 under c._issec and newpt", found=sym.fmt_guard(zeroed[0].guard) if zeroed else "no zeroing")
        # pay-next-date: sweep precedes the child's update (C17.R3)
        if pid in ("C17", "C02") and zeroed:
            ups = [e for e in S.calls("update") if e.recv is not None and e.recv[0] == "elem"]
            ok = bool(ups) and all(z.seq < u.seq for z in zeroed for u in ups if u.loops and z.loops and u.loops[-1] is z.loops[-1])
            chk.ob("C17.R3", ok, CORE, host, "sweep-before-child-update", "carry accrued on a date is paid into the parent on the next date: the sweep precedes the child's update",
                   where=zeroed[0].where)
    # ---- C17.R1 strategy notional
    if pid == "C17":
        nw = S.writes(R.NOTIONAL, SELF)
        chk.need(nw, "%s no longer assigns the notional value" % host)
        for w in nw:
            for g, v in children_cases(w.value):
                exp = drop_sums(ref_notl) if empty_children(g) else ref_notl
                chk.ob("C17.R1", equal(v, exp), CORE, host, "strategy-notional", "a strategy's notional is the sum of the absolute notionals of its children", where=w.where,
                       expected=short(exp, 200), found=short(v, 200), sample={"notional": short(v, 200)})
    # ---- C01.R3b freshness inside update: child update precedes the read of its value
    if pid in ("C01", "C08"):
        ups = [e for e in S.calls("update") if e.recv is not None and e.recv[0] == "elem"]
        chk.need(ups, "%s no longer updates its children" % host)
        for u in ups:
            ok = len(u.args) >= 1 and canon(u.args[0]) == canon(DATE)
            chk.ob("C01.R3b", ok, CORE, host, "child-update-date", "children are updated to the same date", where=u.where, found=short(u.args[0]) if u.args else "no date")
            if pid == "C08" and len(u.args) >= 3:
                chk.ob("C08.R4", is_inow(u.args[2]), CORE, host, "child-update-inow", "the row index handed to children is the current one", where=u.where, found=short(u.args[2]))
    # ---- C01.R3 weights
    if pid in ("C01", "C06", "C17"):
        ww = [e for e in S.events if e.kind == "write" and e.field == R.WEIGHT and e.obj[0] == "elem"]
        chk.need(ww, "%s no longer assigns child weights" % host)
        the_notl = S.writes(R.NOTIONAL, SELF)[-1].value if S.writes(R.NOTIONAL, SELF) else None
        fi_atom = canon(fld(SELF, "_fixed_income"))
        for w in ww:
            c = w.obj
            g = G(w)
            is_fi = sym.lit_holds(g, fi_atom, True)
            not_fi = sym.lit_holds(g, fi_atom, False)
            if not (is_fi or not_fi):
                chk.ob("C01.R3", False, CORE, host, "weight-branch", "child weights are value-based for market-value strategies and notional-based for fixed-income ones",
                       where=w.where, found=sym.fmt_guard(w.guard))
                continue
            if is_fi and pid not in ("C01", "C17"):
                continue
            if not_fi and pid not in ("C01", "C06"):
                continue
            base = sym.restrict(the_notl if is_fi else the_val, g)
            numer_field = R.NOTIONAL if is_fi else R.VALUE
            vv = sym.restrict(w.value, g)
            zb = ("zero", sym._abs_norm(sym.to_rat(base)))
            if canon(vv) == canon(sym.ZERO):
                ok = sym.lit_holds(g, zb, True)
                chk.ob("C01.R3", ok, CORE, host, "weight-zero:%s" % ("fi" if is_fi else "mv"), "weights are zero exactly when the parent's base is zero", where=w.where,
                       expected="under is_zero(parent base)", found=sym.fmt_guard(w.guard)[:300])
            else:
                num = ("fld", c, numer_field, 1)
                ok = equal(vv, ("/", num, base)) and sym.lit_holds(g, zb, False)
                chk.ob("C01.R3", ok, CORE, host, "weight-formula:%s" % ("fi" if is_fi else "mv"),
                       "a child's weight is its (notional) value divided by the parent's final (notional) value", where=w.where,
                       expected="child %s / %s (guarded against zero)" % (numer_field, short(base, 120)), found=short(vv, 240), sample={"weight": short(vv, 160)})
    # ---- rows of the strategy (C01.R4 / C03 / C07 / C08.R4)
    pairs = []
    if pid == "C01":
        pairs = [(R.VALUE, R.VALUES, "C01"), (R.NOTIONAL, R.NOTIONALS, "C01"), (R.CAPITAL, R.CASH, "C01")]
    elif pid == "C03":
        pairs = [(R.PRICE, R.PRICES, "C03")]
    elif pid == "C07":
        pairs = [(R.LAST_FEE, R.FEES, "C07"), (R.NET_FLOWS, R.FLOWS_ROWS, "C07"), (R.CAPITAL, R.CASH, "C07")]
    elif pid == "C17":
        pairs = [(R.NOTIONAL, R.NOTIONALS, "C17")]
    _strategy_rows(chk, pid, S, fi, host, R, pairs)
    # ---- C03 / C17 index formulas
    if pid in ("C03", "C17", "C10"):
        _index_rules(chk, pid, S, fi, host, R)
    # ---- C03.R2 / C08.R1 / C07.R3: snapshot and reset set under the date-change literal
    if pid in ("C03", "C08", "C07", "C17"):
        _reset_rules(chk, pid, S, fi, host, R)
    # ---- C16.R1 bankruptcy
    if pid in ("C16", "C08"):
        _bankruptcy(chk, pid, S, fi, host, R, the_val)
    # ---- C09 shadow stepping and publication
    if pid in ("C09", "C19", "C08"):
        _paper_rules(chk, pid, S, fi, host, R)
    # ---- stale flag resolved
    if pid in ("C08",):
        w = [e for e in S.writes(R.STALE) if canon(e.value) == canon(sym.FALSE)]
        ok = bool(w) and not plain(w[0].guard)
        chk.ob("C08.R3", ok, CORE, host, "stale-cleared", "an update clears the pending-change flag", where=fi.where)


def _consistent(g1, g2):
    s = set((canon(a), p) for a, p in g1)
    for a, p in g2:
        if (canon(a), not p) in s:
            return False
    return True


def _strategy_rows(chk, pid, S, fi, host, R, pairs):
    stores = [(e, hist_store(e)) for e in S.events if hist_store(e)]
    if pid in ("C08",):
        for e, (ser, idx, val, aug) in stores:
            sn = series_name(ser)
            chk.ob("C08.R4", is_inow(idx), CORE, host, "row-index:%s" % sn, "history rows are written only at the current index", where=e.where,
                   expected="index inow / get_loc(date) / 0 on the first update", found=short(idx), sample={"series": sn, "index": short(idx)})
            if aug is not None:
                chk.ob("C08.R2", False, CORE, host, "non-idempotent-row:%s" % sn, "history rows are assigned, not accumulated, so that a repeated update is idempotent", where=e.where)
    for field, series, owner in pairs:
        cands = [(e, hs) for e, hs in stores if series_name(hs[0]) == series]
        if not cands:
            chk.ob("C01.R4", False, CORE, host, "row:%s" % series, "the %s row must be recorded by update" % series, where=fi.where, found="no store into %s" % series)
            continue
        wf = S.writes(field, SELF)
        for e, (ser, idx, val, aug) in cands:
            # the row is written from the field's value at that point
            ok = aug is None and equal(val, cur(e, SELF, field)) and is_inow(idx)
            chk.ob("C01.R4", ok, CORE, host, "row:%s" % series, "the %s row must be written from the current %s" % (series, field), where=e.where,
                   expected=short(cur(e, SELF, field), 200), found=short(val, 200), sample={"series": series, "field": field})
        # every write of the field inside update is followed by a row store on the same paths
        for w in wf:
            if w.chain != (S.fn.qual,):
                continue
            later = [e for e, hs in cands if e.seq > w.seq and guard_subset([l for l in e.guard if not _feature_flag(l)], w.guard)]
            chk.ob("C01.R4", bool(later), CORE, host, "row-after-write:%s" % series, "every change of %s in update is followed by recording its row" % field, where=w.where,
                   expected="store into %s after the assignment, on the same paths" % series, found="no such store")
        # cash / fees / flows rows are unconditional (they change without the value changing)
        if field in (R.CAPITAL, R.LAST_FEE, R.NET_FLOWS):
            ok = any(not plain(e.guard) for e, hs in cands)
            chk.ob("C07.R3", ok, CORE, host, "row-unconditional:%s" % series, "the %s row is rewritten on every update (it changes without the value changing)" % series,
                   where=cands[-1][0].where, expected="unconditional store", found=sym.fmt_guard(cands[-1][0].guard))


def _index_rules(chk, pid, S, fi, host, R):
    fi_atom = canon(fld(SELF, "_fixed_income"))
    pw = [w for w in S.writes(R.PRICE, SELF) if not has_lit(w.guard, fld(SELF, "_paper_trade"), True)]
    chk.need(pw, "%s no longer computes the price index" % host)
    last_names = _last_fields(S, R)
    LP, LV, LN = last_names.get(R.PRICE), last_names.get(R.VALUE), last_names.get(R.NOTIONAL)
    chk.need(LP and LV, "%s no longer snapshots the last price / last value on a date change" % host)
    seen = {"mv": 0, "fi": 0}
    for w in pw:
        g = lits(w.guard)
        is_fi = sym.lit_holds(g, fi_atom, True)
        not_fi = sym.lit_holds(g, fi_atom, False)
        V = cur(w, SELF, R.VALUE)
        lp, lv, nf = cur(w, SELF, LP), cur(w, SELF, LV), cur(w, SELF, R.NET_FLOWS)
        base = ("+", lv, nf)
        if not (is_fi or not_fi):
            if pid in ("C03", "C17"):
                chk.ob("C03.R1", False, CORE, host, "index-branch", "the index is multiplicative for market-value strategies and additive for fixed-income ones", where=w.where,
                       found=sym.fmt_guard(w.guard))
            continue
        if not_fi and pid == "C03":
            seen["mv"] += 1
            for gv, v in sym.split_cases(w.value):
                gg = set(g) | set(lits(gv))
                zero_base = sym.lit_holds(gg, ("zero", sym._abs_norm(sym.to_rat(base))), True)
                nz_base = sym.lit_holds(gg, ("zero", sym._abs_norm(sym.to_rat(base))), False)
                if nz_base:
                    ok = equal(v, ("/", ("*", lp, V), base))
                    exp = "last_price * value / (last_value + net_flows)"
                    key = "index-formula:mv"
                elif zero_base:
                    ok = equal(v, lp) and sym.lit_holds(gg, ("zero", sym._abs_norm(sym.to_rat(V))), True)
                    exp = "last_price (zero return) when base and value are both zero"
                    key = "index-formula:mv-zero-base"
                else:
                    ok, exp, key = False, "division guarded by a zero test of last_value + net_flows", "index-formula:mv-unguarded"
                chk.ob("C03.R1", ok, CORE, host, key, "price[t] = price[t-1] * value[t] / (value[t-1] + net flows[t])", where=w.where, expected=exp, found=short(v, 260),
                       sample={"price": short(v, 200), "guard": sym.fmt_guard(gv)})
        if is_fi and pid == "C17":
            seen["fi"] += 1
            chk.need(LN, "%s no longer snapshots the last notional value" % host)
            ln, N = cur(w, SELF, LN), cur(w, SELF, R.NOTIONAL)
            pnl = ("-", V, base)
            par = sym.num(chk.prog.const_value(CORE, "PAR") or 100.0)
            for gv, v in sym.split_cases(w.value):
                gg = set(g) | set(lits(gv))
                if sym.lit_holds(gg, ("zero", sym._abs_norm(sym.to_rat(ln))), False):
                    ok, exp, key = equal(v, ("+", lp, ("/", ("*", par, pnl), ln))), "last_price + PAR * pnl / last_notional", "index-formula:fi"
                elif sym.lit_holds(gg, ("zero", sym._abs_norm(sym.to_rat(N))), False):
                    ok, exp, key = equal(v, ("+", lp, ("/", ("*", par, pnl), N))), "last_price + PAR * pnl / notional (fallback)", "index-formula:fi-fallback"
                else:
                    ok = equal(v, lp) and sym.lit_holds(gg, ("zero", sym._abs_norm(sym.to_rat(pnl))), True)
                    exp, key = "last_price when notional and pnl are zero", "index-formula:fi-zero"
                chk.ob("C17.R4", ok, CORE, host, key, "a fixed-income index moves additively by PAR x (change in value net of flows) / notional", where=w.where, expected=exp,
                       found=short(v, 260), sample={"price": short(v, 200)})
    if pid == "C03":
        chk.ob("C03.R1", seen["mv"] > 0, CORE, host, "index-present:mv", "the market-value index recurrence must be present", where=fi.where)
    if pid == "C17":
        chk.ob("C17.R4", seen["fi"] > 0, CORE, host, "index-present:fi", "the additive fixed-income index must be present", where=fi.where)
    # ---- C10.R1: return on a zero base raises before the price is written
    if pid == "C10":
        raises = [e for e in S.raises if e.exc == "ZeroDivisionError" or any(a[0] == "zero" for a, p in e.guard)]
        for branch, want_fi in (("mv", False), ("fi", True)):
            rs = [e for e in raises if sym.lit_holds(lits(e.guard), fi_atom, want_fi)]
            ok = False
            for e in rs:
                g = lits(e.guard)
                V = cur(e, SELF, R.VALUE)
                lv, nf = cur(e, SELF, LV), cur(e, SELF, R.NET_FLOWS)
                base = ("+", lv, nf)
                if not want_fi:
                    ok = ok or (sym.lit_holds(g, ("zero", sym._abs_norm(sym.to_rat(base))), True) and sym.lit_holds(g, ("zero", sym._abs_norm(sym.to_rat(V))), False))
                else:
                    pnl = ("-", V, base)
                    ok = ok or (sym.lit_holds(g, ("zero", sym._abs_norm(sym.to_rat(pnl))), False) and any(a[0] == "zero" and p for a, p in g))
            chk.ob("C10.R1", ok, CORE, host, "guard:zero-base:%s" % branch, "a return on a zero base must raise instead of recording a wrong index", where=fi.where,
                   expected="raise under zero base and non-zero %s" % ("pnl" if want_fi else "value"), found="%d raise sites in this branch" % len(rs))


def _last_fields(S, R):
    """LAST(x): the field assigned from role x under the date-change guard."""
    out = {}
    for w in S.writes(None, SELF):
        v = w.value
        if v[0] == "fld" and canon(v[1]) == canon(SELF) and v[2] in (R.PRICE, R.VALUE, R.NOTIONAL) and v[3] == 0 and w.field != v[2]:
            out.setdefault(v[2], w.field)
    return out


def _reset_rules(chk, pid, S, fi, host, R):
    last = _last_fields(S, R)
    date_changed = canon(("cmp", "==", DATE, fld(SELF, "now")))
    now_zero = canon(("cmp", "==", fld(SELF, "now"), sym.ZERO))
    wanted = []
    if pid in ("C03", "C08"):
        wanted += [(last.get(R.PRICE), "snapshot", R.PRICE), (last.get(R.VALUE), "snapshot", R.VALUE), (R.NET_FLOWS, "zero", None)]
    if pid in ("C07", "C08"):
        wanted += [(R.LAST_FEE, "zero", None)]
        if pid == "C07":
            wanted += [(R.NET_FLOWS, "zero", None)]
    if pid in ("C17", "C08"):
        wanted += [(last.get(R.NOTIONAL), "snapshot", R.NOTIONAL)]
    seen = set()
    for field, kind, src in wanted:
        if (field, kind) in seen:
            continue
        seen.add((field, kind))
        if field is None:
            chk.ob("C03.R2", False, CORE, host, "reset-missing:last(%s)" % src, "the previous %s must be snapshotted when the date changes" % src, where=fi.where)
            continue
        ws = [w for w in S.writes(field, SELF) if w.chain == (S.fn.qual,)]
        good = []
        for w in ws:
            g = lits(w.guard)
            under_change = sym.lit_holds(g, date_changed, False)
            if kind == "zero":
                val_ok = canon(w.value) == canon(sym.ZERO)
            else:
                val_ok = is_entry(w.value, SELF, src)
            if val_ok:
                good.append(w)
                chk.ob("C03.R2", under_change, CORE, host, "reset-guard:%s" % field,
                       "%s is %s only when the date changes (evaluated against the pre-update clock)" % (field, "reset" if kind == "zero" else "snapshotted"), where=w.where,
                       expected="under date != now (entry value of now)", found=sym.fmt_guard(w.guard), sample={"field": field, "guard": sym.fmt_guard(w.guard)})
            else:
                chk.ob("C03.R2", False, CORE, host, "reset-value:%s" % field, "unexpected assignment to %s inside update" % field, where=w.where,
                       expected="0" if kind == "zero" else "entry value of %s" % src, found=short(w.value))
        chk.ob("C03.R2", bool(good), CORE, host, "reset-present:%s" % field, "%s must be %s when the date changes" % (field, "reset" if kind == "zero" else "snapshotted"),
               where=fi.where)
        # covers every date change: the guard is exactly `now != 0 and date != now` (the first update has nothing to reset)
        for w in good:
            extra = [l for l in lits(w.guard) if l not in ((date_changed, False), (now_zero, False)) and l != (canon(("zero", sym._abs_norm(sym.to_rat(fld(SELF, "now"))))), False)]
            chk.ob("C03.R2", not extra, CORE, host, "reset-on-every-date-change:%s" % field, "%s is handled on every date change, not only on some" % field, where=w.where,
                   expected="no further condition", found=sym.fmt_guard(extra))
    # the clock moves after the test
    nw = [w for w in S.writes("now", SELF) if w.chain == (S.fn.qual,)]
    if pid in ("C03", "C08"):
        ok = bool(nw) and all(canon(w.value) == canon(DATE) for w in nw)
        chk.ob("C08.R1", ok, CORE, host, "clock-set", "update moves the node's clock to the date", where=fi.where)


def _bankruptcy(chk, pid, S, fi, host, R, the_val):
    bw = S.writes("bankrupt", SELF)
    if pid == "C16":
        setters = [w for w in bw if canon(w.value) == canon(sym.TRUE)]
        chk.ob("C16.R1", len(setters) == 1, CORE, host, "bankrupt-single-site", "bankruptcy is declared at exactly one site", where=fi.where, found="%d sites" % len(setters))
        for w in setters:
            g = lits(w.guard)
            root_is_self = any(p and a[0] in ("cmp", "eq", "is") and mentions_field(a, "root", SELF) for a, p in g)
            not_bk = sym.lit_holds(g, fld(SELF, "bankrupt"), False)
            not_fi = sym.lit_holds(g, fld(SELF, "_fixed_income"), False)
            # sign region of val: some literal must say val < 0 (or <= 0 with not zero)
            neg = False
            for gv, v in sym.split_cases(the_val):
                if not _consistent(g, gv):
                    continue
                lt = sym.lit_holds(g, canon(("cmp", "<", v, sym.ZERO)), True)
                le_nz = sym.lit_holds(g, canon(("cmp", "<=", v, sym.ZERO)), True) and sym.lit_holds(g, ("zero", sym._abs_norm(sym.to_rat(v))), False)
                neg = neg or lt or le_nz
            extra = [l for l in g if not _bk_known(l, the_val)]
            chk.ob("C16.R1", root_is_self, CORE, host, "bankrupt:root-only", "only the root strategy can be declared bankrupt", where=w.where, found=sym.fmt_guard(w.guard)[:200])
            chk.ob("C16.R1", not_fi, CORE, host, "bankrupt:not-fixed-income", "fixed-income strategies are never declared bankrupt", where=w.where)
            chk.ob("C16.R1", not_bk, CORE, host, "bankrupt:once", "bankruptcy is declared once (not while already bankrupt)", where=w.where)
            chk.ob("C16.R1", neg, CORE, host, "bankrupt:negative-value", "bankruptcy is declared exactly when the value computed in this update is negative", where=w.where,
                   expected="val < 0", found=sym.fmt_guard(w.guard)[:300], sample={"guard": sym.fmt_guard(w.guard)[:200]})
            chk.ob("C16.R1", not extra, CORE, host, "bankrupt:no-extra-condition", "a negative root value is always flagged (no further condition)", where=w.where,
                   found=sym.fmt_guard(extra)[:200])
            fl = [c for c in S.calls("flatten") if c.seq > w.seq and guard_subset(c.guard, w.guard) and c.recv == SELF]
            chk.ob("C16.R2", bool(fl), CORE, host, "bankrupt:flatten", "all positions are closed on the bankruptcy date", where=w.where, expected="self.flatten() on the same path")
        others = [w for w in bw if canon(w.value) != canon(sym.TRUE)]
        chk.ob("C16.R1", not others, CORE, host, "bankrupt-not-cleared-in-update", "update never clears the bankruptcy flag (terminal)", where=fi.where)
    if pid == "C08":
        for c in S.calls("flatten"):
            ok = has_lit(c.guard, fld(SELF, "bankrupt"), False)
            chk.ob("C08.R2", ok, CORE, host, "flatten-once", "the liquidation inside update happens once, not on every repeated update", where=c.where)


def _bk_known(l, the_val):
    a, p = l
    if mentions_field(a, "root", SELF) or mentions_field(a, "bankrupt", SELF) or mentions_field(a, "_fixed_income", SELF):
        return True
    if a[0] in ("cmp", "zero"):
        return True
    return False


def _paper_rules(chk, pid, S, fi, host, R):
    pt = canon(fld(SELF, "_paper_trade"))
    date_changed = canon(("cmp", "==", DATE, fld(SELF, "now")))
    paper_calls = [e for e in S.events if e.kind == "call" and e.recv is not None and e.recv[0] == "fld" and e.recv[2] == "_paper"]
    if pid in ("C09", "C08"):
        names = [e.name for e in paper_calls]
        if pid == "C09":
            chk.ob("C09.R3", names == ["update", "run", "update"], CORE, host, "shadow-stepping-sequence",
                   "the shadow copy is stepped update -> run -> update, like the stand-alone date loop", where=fi.where, expected="update, run, update", found=", ".join(names),
                   sample={"sequence": names})
            for e in paper_calls:
                if e.name == "update":
                    ok = e.args and canon(e.args[0]) == canon(DATE)
                    chk.ob("C09.R3", ok, CORE, host, "shadow-step-date", "the shadow copy is stepped to the same date", where=e.where)
        for e in paper_calls:
            g = lits(e.guard)
            newpt_ok = any(p and sym.contains(a, lambda n: n == DATE) for a, p in g) or sym.lit_holds(g, date_changed, False)
            extra = [l for l in g if l != (pt, True) and not sym.contains(l[0], lambda n: n == DATE)]
            chk.ob("C09.R3" if pid == "C09" else "C08.R2", newpt_ok, CORE, host, "shadow-step-only-on-new-date:%s" % e.name,
                   "the shadow copy is stepped once per date (only when the date is new)", where=e.where, found=sym.fmt_guard(e.guard))
            if pid == "C09":
                chk.ob("C09.R3", not extra, CORE, host, "shadow-step-unconditional:%s" % e.name, "the shadow copy is stepped on every new date, whatever the live tree's state",
                       where=e.where, found=sym.fmt_guard(extra))
    if pid == "C09":
        # last writer of the price when paper trading
        for st, _ in S.exits:
            pf = final_value(st, SELF, R.PRICE)
            ok = False
            for g, leaf in sym.cases(pf):
                gg = lits(tuple(st.guard) + tuple(g))
                if sym.lit_holds(gg, pt, True):
                    ok = leaf[0] == "fld" and leaf[2] == R.PRICE and leaf[1][0] == "fld" and leaf[1][2] == "_paper"
                    chk.ob("C09.R4", ok, CORE, host, "shadow-price-last-writer", "a sub-strategy's price is its shadow copy's price", where=fi.where, expected="self._paper.price",
                           found=short(leaf), sample={"price": short(leaf)})
            stores = [(e, hist_store(e)) for e in S.events if hist_store(e) and series_name(hist_store(e)[0]) == R.PRICES and has_lit(e.guard, pt, True)]
            ok = bool(stores) and equal(stores[-1][1][2], cur(stores[-1][0], SELF, R.PRICE)) and is_inow(stores[-1][1][1])
            chk.ob("C09.R4", ok, CORE, host, "shadow-price-row", "the shadow price is also what is recorded in the price row", where=fi.where)
    if pid in ("C09", "C19"):
        pubs = [e for e in S.events if e.kind == "store" and e.base[0] == "attr" and e.base[2] == "loc" and e.base[1][0] == "fld" and e.base[1][2] == "_universe"]
        ok = False
        for e in pubs:
            idx = e.index
            if idx[0] == "tuple" and len(idx) == 3 and canon(idx[1]) == canon(DATE) and idx[2][0] == "elem" and idx[2][1][0] == "fld" and idx[2][1][2] == "_strat_children":
                v = e.value
                ok = (v[0] == "fld" and v[2] == R.PRICE and v[1][0] == "sub" and v[1][1][0] == "fld" and v[1][1][2] == "children" and canon(v[1][2]) == canon(idx[2]))
                extra = [l for l in lits(e.guard) if not mentions_field(l[0], "_has_strat_children", SELF)]
                ok = ok and not extra
        chk.ob("C09.R5", ok, CORE, host, "publish-child-price", "on every update each sub-strategy's price is published into the parent's universe at the current date",
               where=fi.where, expected="_universe.loc[date, c] = children[c].price for c in _strat_children", found="%d publication sites" % len(pubs))
