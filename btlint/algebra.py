"""E5 - canonical rational-function algebra over opaque atoms.

A polynomial is a dict {monomial: Fraction}; a monomial is a sorted tuple of
(atom, power) pairs; an atom is any hashable canonical expression.  A rational
function is a pair (num, den).  Equality of rational functions is decided by
cross-multiplication, so any algebraically equivalent rewrite compares equal
and a changed sign, factor or operand does not.  No solver, no sympy.
"""

from fractions import Fraction

ONE = ()


def _key(a):
    return repr(a)


def p_const(c):
    c = Fraction(c)
    return {ONE: c} if c != 0 else {}


def p_atom(a):
    return {((a, 1),): Fraction(1)}


def p_add(p, q, sign=1):
    r = dict(p)
    for m, c in q.items():
        v = r.get(m, 0) + sign * c
        if v == 0:
            r.pop(m, None)
        else:
            r[m] = v
    return r


def _m_mul(m1, m2):
    d = {}
    for a, k in m1:
        d[a] = d.get(a, 0) + k
    for a, k in m2:
        d[a] = d.get(a, 0) + k
    return tuple(sorted(((a, k) for a, k in d.items() if k != 0), key=lambda t: _key(t[0])))


def p_mul(p, q):
    r = {}
    for m1, c1 in p.items():
        for m2, c2 in q.items():
            m = _m_mul(m1, m2)
            v = r.get(m, 0) + c1 * c2
            if v == 0:
                r.pop(m, None)
            else:
                r[m] = v
    return r


def p_is_zero(p):
    return not p


def p_canon(p):
    return tuple(sorted(((m, c) for m, c in p.items()), key=lambda t: _key(t[0])))


class Rat(object):
    __slots__ = ("num", "den")

    def __init__(self, num, den=None):
        self.num = num
        self.den = den if den is not None else p_const(1)

    @staticmethod
    def const(c):
        return Rat(p_const(c))

    @staticmethod
    def atom(a):
        return Rat(p_atom(a))

    def add(self, o, sign=1):
        if p_canon(self.den) == p_canon(o.den):
            return Rat(p_add(self.num, o.num, sign), self.den)._norm()
        return Rat(p_add(p_mul(self.num, o.den), p_mul(o.num, self.den), sign), p_mul(self.den, o.den))._norm()

    def mul(self, o):
        return Rat(p_mul(self.num, o.num), p_mul(self.den, o.den))._norm()

    def div(self, o):
        if p_is_zero(o.num):
            raise ZeroDivisionError("symbolic division by literal zero")
        return Rat(p_mul(self.num, o.den), p_mul(self.den, o.num))._norm()

    def neg(self):
        return Rat({m: -c for m, c in self.num.items()}, self.den)

    def is_zero(self):
        return p_is_zero(self.num)

    def equals(self, o):
        return p_canon(p_mul(self.num, o.den)) == p_canon(p_mul(o.num, self.den))

    def is_const(self):
        return (not self.num or list(self.num.keys()) == [ONE]) and list(self.den.keys()) == [ONE]

    def const_value(self):
        if not self.is_const():
            return None
        return self.num.get(ONE, Fraction(0)) / self.den[ONE]

    def _norm(self):
        # cheap normalisation: cancel common monomial factors and content, make
        # the leading coefficient of the denominator +1 where the denominator
        # is a single monomial (the common case).
        if not self.num:
            return Rat({}, p_const(1))
        num, den = self.num, self.den
        if len(den) == 1:
            (dm, dc), = den.items()
            # divide numerator by the denominator's coefficient
            num = {m: c / dc for m, c in num.items()}
            # cancel atoms common to every numerator monomial
            common = dict(dm)
            for m in num:
                md = dict(m)
                for a in list(common):
                    k = min(common[a], md.get(a, 0))
                    if k <= 0:
                        del common[a]
                    else:
                        common[a] = k
                if not common:
                    break
            if common:
                def strip(m):
                    md = dict(m)
                    for a, k in common.items():
                        md[a] -= k
                    return tuple(sorted(((a, k) for a, k in md.items() if k != 0), key=lambda t: _key(t[0])))
                num = {strip(m): c for m, c in num.items()}
                dm = strip(dm)
            den = {dm: Fraction(1)}
        return Rat(num, den)

    def canon(self):
        return ("rat", p_canon(self.num), p_canon(self.den))

    def atoms(self):
        s = set()
        for p in (self.num, self.den):
            for m in p:
                for a, _ in m:
                    s.add(a)
        return s

    def __repr__(self):
        return "Rat(%s / %s)" % (fmt_poly(self.num), fmt_poly(self.den))


def fmt_poly(p):
    if not p:
        return "0"
    parts = []
    for m, c in sorted(p.items(), key=lambda t: _key(t[0])):
        ms = "*".join(("%s" % (fmt_atom(a),) if k == 1 else "%s^%s" % (fmt_atom(a), k)) for a, k in m)
        if not ms:
            parts.append(str(c))
        elif c == 1:
            parts.append(ms)
        elif c == -1:
            parts.append("-" + ms)
        else:
            parts.append("%s*%s" % (c, ms))
    return " + ".join(parts)


def fmt_atom(a):
    from . import sym

    return sym.fmt(a)
