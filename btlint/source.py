"""E1 - source model: modules, class table, MRO, method / property resolution, constants.

Nothing of bt is imported; everything is read with `ast` from a mapping
{relative path: source text} (by default /repo's working tree).
"""

import ast
import os

REPO = os.environ.get("BT_REPO", "/repo")
MODULE_FILES = ["bt/core.py", "bt/algos.py", "bt/backtest.py", "bt/__init__.py", "setup.py"]


class AnalysisError(Exception):
    """The analyser cannot find or understand an anchor: exit 2, never a silent pass."""


def load_sources(repo=None):
    repo = repo or REPO
    out = {}
    for rel in MODULE_FILES:
        p = os.path.join(repo, rel)
        if not os.path.exists(p):
            raise AnalysisError("source file missing: %s" % rel)
        with open(p, "r", encoding="utf-8") as f:
            out[rel] = f.read()
    return out


class FuncInfo(object):
    def __init__(self, module, cls, node):
        self.module = module
        self.cls = cls  # class name or None
        self.node = node
        self.name = node.name
        self.is_property = any(_dec_name(d) == "property" for d in node.decorator_list)
        self.is_setter = any(isinstance(d, ast.Attribute) and d.attr == "setter" for d in node.decorator_list)
        self.params = [a.arg for a in node.args.posonlyargs + node.args.args]
        self.vararg = node.args.vararg.arg if node.args.vararg else None
        self.kwarg = node.args.kwarg.arg if node.args.kwarg else None
        self.kwonly = [a.arg for a in node.args.kwonlyargs]
        # defaults aligned to the tail of params
        d = node.args.defaults
        self.defaults = {}
        for p, dv in zip(self.params[len(self.params) - len(d):], d):
            self.defaults[p] = dv
        for p, dv in zip(self.kwonly, node.args.kw_defaults):
            if dv is not None:
                self.defaults[p] = dv

    @property
    def qual(self):
        return "%s.%s" % (self.cls, self.name) if self.cls else self.name

    @property
    def where(self):
        return "%s:%d" % (self.module, self.node.lineno)

    def __repr__(self):
        return "<Func %s %s>" % (self.module, self.qual)


def _dec_name(d):
    if isinstance(d, ast.Name):
        return d.id
    if isinstance(d, ast.Attribute):
        return d.attr
    if isinstance(d, ast.Call):
        return _dec_name(d.func)
    return None


class ClassInfo(object):
    def __init__(self, module, node):
        self.module = module
        self.node = node
        self.name = node.name
        self.base_names = []
        for b in node.bases:
            if isinstance(b, ast.Name):
                self.base_names.append(b.id)
            elif isinstance(b, ast.Attribute):
                self.base_names.append(b.attr)
        self.methods = {}
        for st in node.body:
            if isinstance(st, (ast.FunctionDef,)):
                fi = FuncInfo(module, self.name, st)
                if fi.is_setter:
                    continue
                self.methods[st.name] = fi


class Program(object):
    def __init__(self, sources=None):
        self.sources = sources if sources is not None else load_sources()
        self.trees = {}
        self.classes = {}
        self.functions = {}  # module-level functions by (module, name)
        self.constants = {}  # (module, name) -> ast expr
        for rel, text in self.sources.items():
            try:
                tree = ast.parse(text, filename=rel)
            except SyntaxError as e:
                raise AnalysisError("cannot parse %s: %s" % (rel, e))
            self.trees[rel] = tree
            for st in tree.body:
                if isinstance(st, ast.ClassDef):
                    self.classes[st.name] = ClassInfo(rel, st)
                elif isinstance(st, ast.FunctionDef):
                    self.functions[(rel, st.name)] = FuncInfo(rel, None, st)
                elif isinstance(st, ast.Assign) and len(st.targets) == 1 and isinstance(st.targets[0], ast.Name):
                    self.constants[(rel, st.targets[0].id)] = st.value
        self._mro = {}
        self._subs = {}

    # ---- hierarchy -------------------------------------------------------------------------
    def mro(self, cname):
        if cname in self._mro:
            return self._mro[cname]
        c = self.classes.get(cname)
        if c is None:
            return [cname]
        # single inheritance everywhere in bt; fall back to DFS left-to-right
        out = [cname]
        for b in c.base_names:
            for x in self.mro(b):
                if x not in out:
                    out.append(x)
        self._mro[cname] = out
        return out

    def is_subclass(self, cname, base):
        return base in self.mro(cname)

    def subclasses(self, base):
        if base not in self._subs:
            self._subs[base] = [c for c in self.classes if self.is_subclass(c, base)]
        return self._subs[base]

    def resolve(self, cname, mname, after=None):
        """Method `mname` as seen from class `cname` (after=X: start after X in the MRO, for super())."""
        chain = self.mro(cname)
        if after is not None:
            if after not in chain:
                return None
            chain = chain[chain.index(after) + 1:]
        for k in chain:
            ci = self.classes.get(k)
            if ci and mname in ci.methods:
                return ci.methods[mname]
        return None

    def func(self, module, cls, name):
        if cls is None:
            f = self.functions.get((module, name))
        else:
            ci = self.classes.get(cls)
            f = ci.methods.get(name) if ci else None
        if f is None:
            raise AnalysisError("anchor missing: %s %s%s" % (module, (cls + ".") if cls else "", name))
        return f

    def cls(self, name):
        ci = self.classes.get(name)
        if ci is None:
            raise AnalysisError("anchor missing: class %s" % name)
        return ci

    def implementations(self, mname, family=None):
        """All definitions of a method name (optionally within subclasses of `family`)."""
        out = []
        for c in self.classes.values():
            if family and not self.is_subclass(c.name, family):
                continue
            if mname in c.methods:
                out.append(c.methods[mname])
        return out

    def all_functions(self, modules=None):
        for c in self.classes.values():
            if modules and c.module not in modules:
                continue
            for m in c.methods.values():
                yield m
        for (mod, _), f in self.functions.items():
            if modules and mod not in modules:
                continue
            yield f

    def const_value(self, module, name):
        node = self.constants.get((module, name))
        if node is None:
            return None
        try:
            return ast.literal_eval(node)
        except Exception:
            return None

    def line(self, module, lineno):
        try:
            return self.sources[module].splitlines()[lineno - 1].strip()
        except Exception:
            return ""


NODE_ROOT = "Node"


def ctor_field_map(prog, cname):
    """{private field: 'ctor:<param>'} for the fields a class (or a base) binds directly to a constructor parameter
    (`self._x = x`).  Such a field is named by the parameter it stores, so a private rename is not a change."""
    out = {}
    for k in prog.mro(cname):
        ci = prog.classes.get(k)
        if not ci or "__init__" not in ci.methods:
            continue
        fi = ci.methods["__init__"]
        params = set(fi.params[1:]) | set(fi.kwonly)
        selfname = fi.params[0] if fi.params else "self"
        for n in ast.walk(fi.node):
            if isinstance(n, ast.Assign) and len(n.targets) == 1 and isinstance(n.value, ast.Name) and n.value.id in params:
                t = n.targets[0]
                if isinstance(t, ast.Attribute) and isinstance(t.value, ast.Name) and t.value.id == selfname and t.attr.startswith("_") and not t.attr.startswith("__"):
                    out.setdefault(t.attr, "ctor:%s" % n.value.id)
    return out
