"""E1 - source model: modules, class table, MRO, method / property resolution, constants.

Nothing of bt is imported; everything is read with `ast` from a mapping
{relative path: source text} (by default /repo's working tree).
"""

import ast
import os

REPO = os.environ.get("BT_REPO", "/repo")
MODULE_FILES = ["bt/core.py", "bt/algos.py", "bt/backtest.py", "bt/__init__.py", "setup.py"]


class AnalysisError(Exception):
    """The analyser cannot find or understand an anchor: exit 2, never a silent pass."""


def load_sources(repo=None):
    repo = repo or REPO
    out = {}
    for rel in MODULE_FILES:
        p = os.path.join(repo, rel)
        if not os.path.exists(p):
            raise AnalysisError("source file missing: %s" % rel)
        with open(p, "r", encoding="utf-8") as f:
            out[rel] = f.read()
    return out


# ---- private names of the pinned tree -------------------------------------------------------------------
# The rule sets name private methods as the pinned tree does (`Node._set_root`, `Backtest._process_data`, ...).
# A consistent rename of such a method is not a change of behaviour, so the program is normalised back to the
# pinned names before analysis: a pinned private method that is gone from its class and a new private method
# of the same class with the same arity and a common caller are the same method (decided only when exactly
# one candidate exists on either side).  The table is frozen by tools/gen_ctor_fields.py.
_PRIVATE = []


def _frozen_private_methods():
    if not _PRIVATE:
        import json

        path = os.path.join(os.path.dirname(os.path.abspath(__file__)), "data", "private_methods.json")
        try:
            with open(path) as f:
                _PRIVATE.append(json.load(f))
        except Exception:
            _PRIVATE.append({})
    return _PRIVATE[0]


def _is_private_name(n):
    return n.startswith("_") and not (n.startswith("__") and n.endswith("__"))


def private_method_table(trees):
    """{scope: {name: {"arity": n, "callers": [function names]}}} for private methods / module functions."""
    defs = {}
    for rel, tree in trees.items():
        if rel == "setup.py":
            continue
        for st in tree.body:
            if isinstance(st, ast.ClassDef):
                for m in st.body:
                    if isinstance(m, ast.FunctionDef) and _is_private_name(m.name):
                        defs.setdefault(st.name, {})[m.name] = {"arity": len(m.args.posonlyargs) + len(m.args.args), "callers": []}
            elif isinstance(st, ast.FunctionDef) and _is_private_name(st.name):
                defs.setdefault("<%s>" % rel, {})[st.name] = {"arity": len(st.args.posonlyargs) + len(st.args.args), "callers": []}
    names = set(n for d in defs.values() for n in d)
    for rel, tree in trees.items():
        for fn in ast.walk(tree):
            if not isinstance(fn, ast.FunctionDef):
                continue
            for n in ast.walk(fn):
                if isinstance(n, ast.Call):
                    called = n.func.attr if isinstance(n.func, ast.Attribute) else n.func.id if isinstance(n.func, ast.Name) else None
                    if called in names:
                        for d in defs.values():
                            if called in d and fn.name not in d[called]["callers"] and fn.name != called:
                                d[called]["callers"].append(fn.name)
    for d in defs.values():
        for v in d.values():
            v["callers"].sort()
    return defs


class _RenameAttr(ast.NodeTransformer):
    def __init__(self, mapping):
        self.mapping = mapping

    def visit_Attribute(self, node):
        self.generic_visit(node)
        if node.attr in self.mapping:
            node.attr = self.mapping[node.attr]
        return node

    def visit_Name(self, node):
        if node.id in self.mapping:
            node.id = self.mapping[node.id]
        return node

    def visit_FunctionDef(self, node):
        self.generic_visit(node)
        if node.name in self.mapping:
            node.name = self.mapping[node.name]
        return node


def private_field_table(trees):
    """{class: {field: {"users": [methods of the class that touch self.<field>], "init": source of a constant
    initial value in __init__ or "?", "order": position among the private fields first stored in __init__}}}"""
    methods = set()
    for tree in trees.values():
        for n in ast.walk(tree):
            if isinstance(n, ast.FunctionDef):
                methods.add(n.name)
    out = {}
    for rel, tree in trees.items():
        if rel == "setup.py":
            continue
        for st in tree.body:
            if not isinstance(st, ast.ClassDef):
                continue
            tab = {}
            for m in st.body:
                if not isinstance(m, ast.FunctionDef) or not m.args.args:
                    continue
                selfname = m.args.args[0].arg
                for n in ast.walk(m):
                    if isinstance(n, ast.Attribute) and isinstance(n.value, ast.Name) and n.value.id == selfname and _is_private_name(n.attr) and n.attr not in methods:
                        d = tab.setdefault(n.attr, {"users": [], "init": "?", "order": -1})
                        if m.name not in d["users"]:
                            d["users"].append(m.name)
                if m.name == "__init__":
                    k = 0
                    for n in ast.walk(m):
                        if isinstance(n, ast.Assign) and len(n.targets) == 1:
                            t = n.targets[0]
                            if isinstance(t, ast.Attribute) and isinstance(t.value, ast.Name) and t.value.id == selfname and t.attr in tab and tab[t.attr]["order"] < 0:
                                tab[t.attr]["order"] = k
                                k += 1
                                if isinstance(n.value, (ast.Constant, ast.List, ast.Dict, ast.Tuple)) and len(ast.unparse(n.value)) < 30:
                                    tab[t.attr]["init"] = ast.unparse(n.value)
            for d in tab.values():
                d["users"].sort()
            if tab:
                out[st.name] = tab
    return out


def _pair_up(missing, fresh, same):
    """one-to-one pairing of vanished and new names: a pair is accepted when each is the other's only candidate,
    or when equally many vanished and new names are mutually indistinguishable and pair up in declaration order"""
    mapping = {}
    cand = dict((m, [n for n in fresh if same(m, n)]) for m in missing)
    for m, cs in cand.items():
        if len(cs) == 1 and sum(1 for cs2 in cand.values() if cs[0] in cs2) == 1:
            mapping[cs[0]] = m
    left_m = [m for m in missing if m not in mapping.values()]
    groups = {}
    for m in left_m:
        groups.setdefault(tuple(cand[m]), []).append(m)
    for cs, ms in groups.items():
        if cs and len(cs) == len(ms) and all(sum(1 for cs2 in cand.values() if c in cs2) == len(ms) for c in cs):
            for m, n in zip(ms, cs):
                mapping[n] = m
    return mapping


def normalise_private_names(trees):
    """Rename consistently renamed private methods and fields back to their pinned names (in place); returns {new: pinned}."""
    frozen = _frozen_private_methods()
    if not frozen:
        return {}
    frozen_fields = frozen.get("__fields__", {})
    frozen = dict((k, v) for k, v in frozen.items() if k != "__fields__")
    now = private_method_table(trees)
    all_now = set(n for d in now.values() for n in d)
    all_frozen = set(n for d in frozen.values() for n in d)
    mapping = {}
    for scope, pinned in frozen.items():
        cur = now.get(scope, {})
        missing = [n for n in pinned if n not in cur and n not in all_now]
        fresh = [n for n in cur if n not in pinned and n not in all_frozen]
        if not missing or not fresh:
            continue

        def same(m, n, cur=cur, pinned=pinned):
            return cur[n]["arity"] == pinned[m]["arity"] and bool(set(cur[n]["callers"]) & set(pinned[m]["callers"]) or (not cur[n]["callers"] and not pinned[m]["callers"]))

        mapping.update(_pair_up(missing, fresh, same))
    if mapping:
        for rel in list(trees):
            trees[rel] = _RenameAttr(mapping).visit(trees[rel])
    # fields (after the methods carry their pinned names again)
    fnow = private_field_table(trees)
    used_now = set(n for d in fnow.values() for n in d)
    used_frozen = set(n for d in frozen_fields.values() for n in d)
    fmap, conflict = {}, set()
    for cls, pinned in frozen_fields.items():
        cur = fnow.get(cls, {})
        missing = sorted([n for n in pinned if n not in cur], key=lambda n: pinned[n]["order"])
        fresh = sorted([n for n in cur if n not in pinned and n not in used_frozen], key=lambda n: cur[n]["order"])
        if not missing or not fresh:
            continue

        def same_f(m, n, cur=cur, pinned=pinned):
            return cur[n]["users"] == pinned[m]["users"] and cur[n]["init"] == pinned[m]["init"]

        for n, m in _pair_up(missing, fresh, same_f).items():
            if n in fmap and fmap[n] != m:
                conflict.add(n)
            fmap[n] = m
    for n in conflict:
        fmap.pop(n, None)
    if fmap:
        for rel in list(trees):
            trees[rel] = _RenameAttr(fmap).visit(trees[rel])
        mapping.update(fmap)
    return mapping


class FuncInfo(object):
    def __init__(self, module, cls, node):
        self.module = module
        self.cls = cls  # class name or None
        self.node = node
        self.name = node.name
        self.is_property = any(_dec_name(d) == "property" for d in node.decorator_list)
        self.is_setter = any(isinstance(d, ast.Attribute) and d.attr == "setter" for d in node.decorator_list)
        self.params = [a.arg for a in node.args.posonlyargs + node.args.args]
        self.vararg = node.args.vararg.arg if node.args.vararg else None
        self.kwarg = node.args.kwarg.arg if node.args.kwarg else None
        self.kwonly = [a.arg for a in node.args.kwonlyargs]
        # defaults aligned to the tail of params
        d = node.args.defaults
        self.defaults = {}
        for p, dv in zip(self.params[len(self.params) - len(d):], d):
            self.defaults[p] = dv
        for p, dv in zip(self.kwonly, node.args.kw_defaults):
            if dv is not None:
                self.defaults[p] = dv

    @property
    def qual(self):
        return "%s.%s" % (self.cls, self.name) if self.cls else self.name

    @property
    def where(self):
        return "%s:%d" % (self.module, self.node.lineno)

    def __repr__(self):
        return "<Func %s %s>" % (self.module, self.qual)


def _dec_name(d):
    if isinstance(d, ast.Name):
        return d.id
    if isinstance(d, ast.Attribute):
        return d.attr
    if isinstance(d, ast.Call):
        return _dec_name(d.func)
    return None


class ClassInfo(object):
    def __init__(self, module, node):
        self.module = module
        self.node = node
        self.name = node.name
        self.base_names = []
        for b in node.bases:
            if isinstance(b, ast.Name):
                self.base_names.append(b.id)
            elif isinstance(b, ast.Attribute):
                self.base_names.append(b.attr)
        self.methods = {}
        for st in node.body:
            if isinstance(st, (ast.FunctionDef,)):
                fi = FuncInfo(module, self.name, st)
                if fi.is_setter:
                    continue
                self.methods[st.name] = fi


class Program(object):
    def __init__(self, sources=None, normalise=True):
        self.sources = sources if sources is not None else load_sources()
        self.trees = {}
        self.classes = {}
        self.functions = {}  # module-level functions by (module, name)
        self.constants = {}  # (module, name) -> ast expr
        for rel, text in self.sources.items():
            try:
                self.trees[rel] = ast.parse(text, filename=rel)
            except SyntaxError as e:
                raise AnalysisError("cannot parse %s: %s" % (rel, e))
        self.renamed = normalise_private_names(self.trees) if normalise else {}
        for rel in self.sources:
            tree = self.trees[rel]
            for st in tree.body:
                if isinstance(st, ast.ClassDef):
                    self.classes[st.name] = ClassInfo(rel, st)
                elif isinstance(st, ast.FunctionDef):
                    self.functions[(rel, st.name)] = FuncInfo(rel, None, st)
                elif isinstance(st, ast.Assign) and len(st.targets) == 1 and isinstance(st.targets[0], ast.Name):
                    self.constants[(rel, st.targets[0].id)] = st.value
        self._mro = {}
        self._subs = {}
        for ci in self.classes.values():
            for m in ci.methods.values():
                m.prog = self
        for f in self.functions.values():
            f.prog = self
        self._establish_issec()

    def _establish_issec(self):
        """`_issec` is the type test isinstance(node, SecurityBase) when it is assigned in exactly two places of bt/core.py: False in Node.__init__, True in SecurityBase.__init__."""
        from . import sym
        writes = []
        tree = self.trees.get("bt/core.py")
        for cls in (tree.body if tree is not None else []):
            if not isinstance(cls, ast.ClassDef):
                continue
            for fn in cls.body:
                for node in (ast.walk(fn) if isinstance(fn, ast.FunctionDef) else []):
                    ts = node.targets if isinstance(node, ast.Assign) else [node.target] if isinstance(node, (ast.AugAssign, ast.AnnAssign)) else []
                    for t in ts:
                        for x in ast.walk(t):
                            if isinstance(x, ast.Attribute) and x.attr == "_issec":
                                v = node.value
                                ok = isinstance(x.value, ast.Name) and x.value.id == "self" and isinstance(node, ast.Assign) and isinstance(v, ast.Constant)
                                writes.append((cls.name, fn.name, v.value if ok else "?"))
        sym.ISSEC_IS_SECURITY = sorted(writes, key=repr) == sorted([("Node", "__init__", False), ("SecurityBase", "__init__", True)], key=repr)

    # ---- hierarchy -------------------------------------------------------------------------
    def mro(self, cname):
        if cname in self._mro:
            return self._mro[cname]
        c = self.classes.get(cname)
        if c is None:
            return [cname]
        # single inheritance everywhere in bt; fall back to DFS left-to-right
        out = [cname]
        for b in c.base_names:
            for x in self.mro(b):
                if x not in out:
                    out.append(x)
        self._mro[cname] = out
        return out

    def is_subclass(self, cname, base):
        return base in self.mro(cname)

    def class_constants(self, cname):
        """{attribute: ast constant value} for plain constant class-level assignments visible from `cname` (nearest class wins)."""
        out = {}
        for k in reversed(self.mro(cname)):
            c = self.classes.get(k)
            if c is None:
                continue
            for st in c.node.body:
                tgt, val = None, None
                if isinstance(st, ast.Assign) and len(st.targets) == 1 and isinstance(st.targets[0], ast.Name):
                    tgt, val = st.targets[0].id, st.value
                elif isinstance(st, ast.AnnAssign) and isinstance(st.target, ast.Name) and st.value is not None:
                    tgt, val = st.target.id, st.value
                if tgt is not None and isinstance(val, ast.Constant):
                    out[tgt] = val.value
                elif tgt is not None:
                    out.pop(tgt, None)
        return out

    def subclasses(self, base):
        if base not in self._subs:
            self._subs[base] = [c for c in self.classes if self.is_subclass(c, base)]
        return self._subs[base]

    def resolve(self, cname, mname, after=None):
        """Method `mname` as seen from class `cname` (after=X: start after X in the MRO, for super())."""
        chain = self.mro(cname)
        if after is not None:
            if after not in chain:
                return None
            chain = chain[chain.index(after) + 1:]
        for k in chain:
            ci = self.classes.get(k)
            if ci and mname in ci.methods:
                return ci.methods[mname]
        return None

    def func(self, module, cls, name):
        if cls is None:
            f = self.functions.get((module, name))
        else:
            ci = self.classes.get(cls)
            f = ci.methods.get(name) if ci else None
            if f is None and ci is not None and not (name.startswith("__") and name.endswith("__") and name != "__call__"):
                # the method may have been pulled up into a (new) base class: what the class does when the method is called is the inherited implementation,
                # analysed for this class (its own hooks)
                f = self.resolve(cls, name)
        if f is None:
            raise AnalysisError("anchor missing: %s %s%s" % (module, (cls + ".") if cls else "", name))
        return f

    def cls(self, name):
        ci = self.classes.get(name)
        if ci is None:
            raise AnalysisError("anchor missing: class %s" % name)
        return ci

    def implementations(self, mname, family=None):
        """All definitions of a method name (optionally within subclasses of `family`)."""
        out = []
        for c in self.classes.values():
            if family and not self.is_subclass(c.name, family):
                continue
            if mname in c.methods:
                out.append(c.methods[mname])
        return out

    def all_functions(self, modules=None):
        for c in self.classes.values():
            if modules and c.module not in modules:
                continue
            for m in c.methods.values():
                yield m
        for (mod, _), f in self.functions.items():
            if modules and mod not in modules:
                continue
            yield f

    def const_value(self, module, name):
        node = self.constants.get((module, name))
        if node is None:
            return None
        try:
            return ast.literal_eval(node)
        except Exception:
            return None

    def line(self, module, lineno):
        try:
            return self.sources[module].splitlines()[lineno - 1].strip()
        except Exception:
            return ""


NODE_ROOT = "Node"


def ctor_field_map(prog, cname):
    """{private field: 'ctor:<param>'} for the fields a class (or a base) binds directly to a constructor parameter
    (`self._x = x`).  Such a field is named by the parameter it stores, so a private rename is not a change."""
    out = {}
    for k in prog.mro(cname):
        ci = prog.classes.get(k)
        if not ci or "__init__" not in ci.methods:
            continue
        fi = ci.methods["__init__"]
        params = set(fi.params[1:]) | set(fi.kwonly)
        selfname = fi.params[0] if fi.params else "self"
        for n in ast.walk(fi.node):
            val = n.value if isinstance(n, ast.Assign) else None
            if (isinstance(val, ast.Call) and isinstance(val.func, ast.Name) and val.func.id == "bool" and len(val.args) == 1 and not val.keywords):
                val = val.args[0]  # a flag stored as bool(flag) is still that flag (it is only ever used as a truth value)
            if isinstance(n, ast.Assign) and len(n.targets) == 1 and isinstance(val, ast.Name) and val.id in params:
                t = n.targets[0]
                if isinstance(t, ast.Attribute) and isinstance(t.value, ast.Name) and t.value.id == selfname and t.attr.startswith("_") and not t.attr.startswith("__"):
                    out.setdefault(t.attr, "ctor:%s" % val.id)
    return out
