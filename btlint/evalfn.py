"""E2-E4, E6 - gated value graph of one function, built by a structured walk of its AST.

This is a *static* dataflow analysis: the body is walked once (loops are summarised, not
unrolled; branches are merged with gated phi nodes `ite(cond, a, b)`), there is no path
enumeration and no solver.  The result is a `Summary`:

  * `events`  - every heap write, in-place store, call, property read, return and raise, in program
                order, each with the *guard* (conjunction of canonical literals over entry state
                that holds whenever the event is reached - must-hold literals / control
                dependence, E3), the enclosing loops, and the symbolic values involved (E4);
  * `exits`   - the normal exits with the heap as gated values.

Values are expressed over *entry state* leaves (`('fld', obj, name, 0)`), parameters and opaque
results, so a later assignment never invalidates an earlier guard literal.
"""

import ast
import copy
import itertools

from . import sym
from .source import FuncInfo, AnalysisError
from .sym import NONE, canon, literals

RAISED_FLAGS = {"stale", "_needupdate", "bankrupt"}  # boolean flags of the tree, read only for their truth value
ALIASED_CONTAINER_FIELDS = {"_childrenv", "children", "_lazy_children", "_strat_children", "perm"}
PURE_MODULES = {"np", "numpy", "pd", "pandas", "math", "re", "random", "abc", "sklearn", "ffn", "plt", "pyprind", "codecs", "os"}
NODE_PARAM_NAMES = {"target", "strategy", "random_strategy", "parent", "root", "node", "child", "c", "sec", "s", "paper"}
NODE_FIELDS = {"parent", "root", "_paper", "strategy"}
CHILD_COLLECTION_FIELDS = {"_childrenv"}
CHILD_COLLECTION_PROPS = {"members", "securities"}
MUTATORS = {"append", "extend", "add", "pop", "update", "clear", "remove", "insert", "fill", "sort", "setdefault", "discard", "popitem"}
BUILTINS = {
    "abs", "len", "list", "set", "dict", "zip", "isinstance", "hasattr", "getattr", "setattr", "any", "all", "min", "max", "sum", "sorted", "range",
    "float", "int", "str", "print", "type", "enumerate", "tuple", "bool", "repr", "reversed", "iter", "next", "map", "filter", "round", "id", "callable",
    "frozenset", "object", "Exception", "ValueError", "KeyError", "NotImplementedError", "ZeroDivisionError", "TypeError", "IndexError", "AttributeError",
    "RuntimeError", "ImportError", "StopIteration", "divmod", "pow", "slice", "vars", "dir", "format", "open", "super",
}


class Event(object):
    __slots__ = ("kind", "seq", "guard", "loops", "node", "fn", "chain", "obj", "field", "value", "aug", "old", "base", "index", "recv", "name", "args",
                 "kwargs", "result", "callee", "inlined", "exc", "extra", "heap", "epoch", "graw")

    def __init__(self, kind, **kw):
        for s in self.__slots__:
            setattr(self, s, None)
        self.kind = kind
        for k, v in kw.items():
            setattr(self, k, v)

    @property
    def line(self):
        return getattr(self.node, "lineno", 0)

    @property
    def where(self):
        return "%s:%d" % (self.fn.module, self.line) if self.fn else "?:%d" % self.line

    def arg(self, callee_params, name, pos=None, default=None):
        """Argument `name` of a call event, by keyword or position."""
        if self.kwargs and name in self.kwargs:
            return self.kwargs[name]
        if pos is not None and self.args is not None and len(self.args) > pos:
            return self.args[pos]
        return default

    def __repr__(self):
        if self.kind == "write":
            return "<write %s.%s %s= %s | %s @%s>" % (sym.fmt(self.obj), self.field, self.aug or "", sym.fmt(self.value), sym.fmt_guard(self.guard), self.line)
        if self.kind == "store":
            return "<store %s[%s] %s= %s | %s @%s>" % (sym.fmt(self.base), sym.fmt(self.index), self.aug or "", sym.fmt(self.value), sym.fmt_guard(self.guard), self.line)
        if self.kind == "call":
            return "<call %s.%s(%s %s) | %s @%s>" % (sym.fmt(self.recv) if self.recv else "", self.name, ", ".join(sym.fmt(a) for a in self.args or []),
                                                       ", ".join("%s=%s" % (k, sym.fmt(v)) for k, v in (self.kwargs or {}).items()), sym.fmt_guard(self.guard), self.line)
        if self.kind == "propread":
            return "<propread %s.%s | %s @%s>" % (sym.fmt(self.obj), self.name, sym.fmt_guard(self.guard), self.line)
        if self.kind == "return":
            return "<return %s | %s @%s>" % (sym.fmt(self.value), sym.fmt_guard(self.guard), self.line)
        if self.kind == "raise":
            return "<raise %s | %s @%s>" % (self.exc, sym.fmt_guard(self.guard), self.line)
        return "<%s @%s>" % (self.kind, self.line)


class State(object):
    __slots__ = ("locals", "heap", "sub", "guard", "alive", "epoch", "epoch_all", "graw", "_nraw")

    def __init__(self):
        self.locals = {}
        self.heap = {}
        self.sub = {}
        self.guard = []
        self.alive = True
        self._nraw = 0
        self.graw = []  # raw (uncanonicalised) branch conditions with polarity, for deep restriction
        self.epoch = {}  # field name -> id of the last call that may have written it (on any object)
        self.epoch_all = 0

    def copy(self):
        s = State()
        s.locals = dict(self.locals)
        s.heap = dict(self.heap)
        s.sub = dict(self.sub)
        s.guard = list(self.guard)
        s.alive = self.alive
        s.epoch = dict(self.epoch)
        s.epoch_all = self.epoch_all
        s.graw = list(self.graw)
        return s

    def version(self, name, group="S"):
        return self.epoch.get((group, name), self.epoch_all)


class Summary(object):
    def __init__(self, fn, host):
        self.fn = fn
        self.host = host
        self.events = []
        self.exits = []  # (state, retval) normal exits (return / fall through)
        self.raises = []
        self.params = {}
        self.unsupported = []
        self.while_loops = []

    # --- queries --------------------------------------------------------------------------------
    def writes(self, field=None, obj=None):
        out = []
        for e in self.events:
            if e.kind == "write" and (field is None or e.field == field) and (obj is None or canon(e.obj) == canon(obj)):
                out.append(e)
        return out

    def stores(self):
        return [e for e in self.events if e.kind == "store"]

    def calls(self, name=None, recv=None):
        out = []
        for e in self.events:
            if e.kind == "call" and (name is None or e.name == name) and (recv is None or (e.recv is not None and canon(e.recv) == canon(recv))):
                out.append(e)
        return out

    def final(self, obj, field):
        """Gated value of obj.field over the normal exits: [(guard, value)]."""
        key = (canon(obj), field)
        out = []
        for st, _ in self.exits:
            v = st.heap.get(key, ("fld", obj, field, st.version(field, _GROUPS.get(key[0], "S"))))
            for g, leaf in sym.cases(v):
                out.append((tuple(st.guard) + g, leaf))
        return out

    def return_cases(self):
        out = []
        for st, rv in self.exits:
            for g, leaf in sym.cases(rv):
                out.append((tuple(st.guard) + g, leaf))
        return out


SELF = ("param", "self")


class Evaluator(object):
    """Evaluates one function (with bounded inlining of same-object helper calls)."""

    def __init__(self, prog, inline_depth=2, no_inline=(), ignore_refresh=False):
        self.prog = prog
        self.inline_depth = inline_depth
        self.no_inline = set(no_inline)
        # reports are compared modulo tree refreshes: `if X.root.stale: X.root.update(X.root.now, None)` brings derived state up to date and changes
        # nothing a reader can see (C08); which accessor performs it, and whether a report performs one more, is decided by the accessor rules
        self.ignore_refresh = ignore_refresh
        self._ids = itertools.count(1)
        self._may_write = None
        self._effects = None

    # ------------------------------------------------------------------------------------------
    def summarize(self, fn, host=None, bindings=None):
        host = host or fn.cls
        _GROUPS.clear()  # alias groups are relative to this function's anchor object
        self.summary = Summary(fn, host)
        self.seq = itertools.count(1)
        st = State()
        for p in fn.params:
            st.locals[p] = ("param", p)
        if fn.vararg:
            st.locals[fn.vararg] = ("param", "*" + fn.vararg)
        if fn.kwarg:
            st.locals[fn.kwarg] = ("param", "**" + fn.kwarg)
        for p in fn.kwonly:
            st.locals[p] = ("param", p)
        if bindings:
            st.locals.update(bindings)
        self.summary.params = dict(st.locals)
        frame = Frame(fn, host, chain=(fn.qual,))
        exits = self.run_function(frame, st)
        self.summary.exits = exits
        return self.summary

    def run_function(self, frame, st):
        """Execute a function body; returns the list of normal exits [(state, retval)]."""
        frame.exits = []
        self.exec_block(frame.fn.node.body, st, frame)
        if st.alive is True:
            frame.exits.append((st, NONE))
        return frame.exits

    # ------------------------------------------------------------------------------------------
    # statements
    def exec_block(self, stmts, st, frame):
        for s in stmts:
            if st.alive is not True:
                break
            self.exec_stmt(s, st, frame)

    def exec_stmt(self, s, st, frame):
        m = getattr(self, "st_" + type(s).__name__, None)
        if m is None:
            self.summary.unsupported.append((frame.fn.module, s.lineno, type(s).__name__))
            return
        m(s, st, frame)

    def st_Expr(self, s, st, frame):
        if isinstance(s.value, ast.Constant):
            return
        if isinstance(s.value, (ast.ListComp, ast.GeneratorExp, ast.SetComp, ast.DictComp)):
            self.eval_comp(s.value, st, frame, as_stmt=True)
            return
        self.ev(s.value, st, frame)

    def st_Pass(self, s, st, frame):
        pass

    def st_Import(self, s, st, frame):
        for a in s.names:
            st.locals[(a.asname or a.name).split(".")[0]] = ("mod", a.name)

    st_ImportFrom = st_Pass
    st_Global = st_Pass
    st_Nonlocal = st_Pass
    st_Assert = st_Pass

    def st_FunctionDef(self, s, st, frame):
        # a nested helper: inlined at its calls, with the enclosing function's variables visible (closure)
        if not hasattr(self, "_localfuncs"):
            self._localfuncs = {}
        self._localfuncs[(s.lineno, s.name)] = s
        st.locals[s.name] = ("localfunc", s.lineno, s.name)

    def st_Return(self, s, st, frame):
        q = s.value
        if (isinstance(q, ast.Call) and isinstance(q.func, ast.Name) and q.func.id in ("all", "any") and len(q.args) == 1 and not q.keywords
                and isinstance(q.args[0], (ast.GeneratorExp, ast.ListComp)) and len(q.args[0].generators) == 1 and not q.args[0].generators[0].ifs
                and any(isinstance(n_, ast.Call) for n_ in ast.walk(q.args[0].elt))):
            # return all(f(x) for x in xs)   is   for x in xs: if not f(x): return False   followed by   return True   (any: dually)
            gen = q.args[0].generators[0]
            is_all = q.func.id == "all"
            test = ast.UnaryOp(op=ast.Not(), operand=q.args[0].elt) if is_all else q.args[0].elt
            loop = ast.For(target=gen.target, iter=gen.iter, body=[ast.If(test=test, body=[ast.Return(value=ast.Constant(value=not is_all))], orelse=[])], orelse=[])
            tail = ast.Return(value=ast.Constant(value=is_all))
            for n_ in (loop, tail):
                ast.copy_location(n_, s)
                ast.fix_missing_locations(n_)
            self.exec_block([loop, tail], st, frame)
            return
        v = self.ev(s.value, st, frame) if s.value is not None else NONE
        self.emit(Event("return", value=v), s, st, frame)
        frame.exits.append((st.copy(), v))
        st.alive = "return"

    def st_Raise(self, s, st, frame):
        exc = None
        if s.exc is not None:
            e = s.exc
            if isinstance(e, ast.Call):
                e = e.func
            if isinstance(e, ast.Name):
                exc = e.id
            elif isinstance(e, ast.Attribute):
                exc = e.attr
        self.emit(Event("raise", exc=exc), s, st, frame)
        st.alive = "raise"

    def st_Continue(self, s, st, frame):
        if frame.loops:
            frame.loops[-1].pending.append(("continue", st.copy()))
        st.alive = "continue"

    def st_Break(self, s, st, frame):
        if frame.loops:
            frame.loops[-1].pending.append(("break", st.copy()))
            frame.loops[-1].has_break = True
        st.alive = "break"

    def st_Delete(self, s, st, frame):
        for t in s.targets:
            if isinstance(t, ast.Subscript):
                base = self.ev(t.value, st, frame)
                idx = self.ev_index(t.slice, st, frame)
                self.emit(Event("store", base=base, index=idx, value=("deleted",), aug="del"), s, st, frame)
                st.sub.pop((canon(base), canon(idx)), None)
            elif isinstance(t, ast.Name):
                st.locals.pop(t.id, None)

    def st_Assign(self, s, st, frame):
        if isinstance(s.value, ast.IfExp) and len(s.targets) == 1 and isinstance(s.targets[0], (ast.Attribute, ast.Subscript)):
            # `obj.f = a if c else b` is the statement `if c: obj.f = a  else: obj.f = b` (same evaluation order)
            tgt = s.targets[0]
            a = ast.copy_location(ast.Assign(targets=[tgt], value=s.value.body), s)
            b = ast.copy_location(ast.Assign(targets=[tgt], value=s.value.orelse), s)
            return self.st_If(ast.copy_location(ast.If(test=s.value.test, body=[a], orelse=[b]), s), st, frame)
        if (isinstance(s.value, ast.BoolOp) and isinstance(s.value.op, ast.Or) and len(s.value.values) == 2 and len(s.targets) == 1
                and isinstance(s.targets[0], ast.Attribute) and s.targets[0].attr in RAISED_FLAGS):
            # `node.flag = cond or node.flag` (either order) only ever raises the flag: the statement `if cond: node.flag = True`
            tgt = s.targets[0]
            me = ast.dump(ast.Attribute(value=tgt.value, attr=tgt.attr, ctx=ast.Load()))
            others = [x for x in s.value.values if ast.dump(x) != me]
            if len(others) == 1 and _simple_pure_expr(tgt.value):
                cond = others[0]
                if isinstance(cond, ast.Call) and isinstance(cond.func, ast.Name) and cond.func.id == "bool" and len(cond.args) == 1 and not cond.keywords:
                    cond = cond.args[0]
                a = ast.copy_location(ast.Assign(targets=[tgt], value=ast.copy_location(ast.Constant(value=True), s)), s)
                return self.st_If(ast.copy_location(ast.If(test=cond, body=[a], orelse=[]), s), st, frame)
        v = self.ev(s.value, st, frame)
        for t in s.targets:
            self.assign(t, v, st, frame, s)

    def st_AnnAssign(self, s, st, frame):
        if s.value is not None:
            self.assign(s.target, self.ev(s.value, st, frame), st, frame, s)

    def st_AugAssign(self, s, st, frame):
        op = _binop(s.op)
        rhs = self.ev(s.value, st, frame)
        t = s.target
        if isinstance(t, ast.Name):
            old = self.lookup(t.id, st, frame)
            st.locals[t.id] = (op, old, rhs)
        elif isinstance(t, ast.Attribute):
            obj = self.ev(t.value, st, frame)
            old = self.read_field(obj, t.attr, st, frame, t, emit=False)
            new = (op, old, rhs)
            self.write_field(obj, t.attr, new, st, frame, s, aug=op, old=old, rhs=rhs)
        elif isinstance(t, ast.Subscript):
            base = self.ev(t.value, st, frame)
            idx = self.ev_index(t.slice, st, frame)
            old = st.sub.get((canon(base), canon(idx)), ("sub", base, idx))
            new = (op, old, rhs)
            self.emit(Event("store", base=base, index=idx, value=rhs, aug=op, old=old), s, st, frame)
            st.sub[(canon(base), canon(idx))] = new
        else:
            self.summary.unsupported.append((frame.fn.module, s.lineno, "AugAssign target"))

    def assign(self, t, v, st, frame, stmt):
        if isinstance(t, ast.Name):
            st.locals[t.id] = v
        elif isinstance(t, ast.Attribute):
            obj = self.ev(t.value, st, frame)
            self.write_field(obj, t.attr, v, st, frame, stmt)
        elif isinstance(t, ast.Subscript):
            base = self.ev(t.value, st, frame)
            idx = self.ev_index(t.slice, st, frame)
            self.emit(Event("store", base=base, index=idx, value=v), stmt, st, frame)
            st.sub[(canon(base), canon(idx))] = v
            if isinstance(t.value, ast.Name) and base == ("dict",) and frame.loops and not getattr(frame.loops[-1], "is_while", False) and self.summary.events:
                # d = {}; for ...: d[k] = v   is the dict comprehension {k: v for ...}: remembered, decided when the loop closes
                loop = frame.loops[-1]
                rel = [l for l in st.guard if l not in loop.guard0 or l in loop.filter]
                loop.dict_stores.setdefault(t.value.id, []).append((idx, v, tuple(l for l in rel if not (isinstance(l[0], tuple) and l[0] and l[0][0] == "impl")), self.summary.events[-1]))
        elif isinstance(t, (ast.Tuple, ast.List)):
            n = len(t.elts)
            for i, el in enumerate(t.elts):
                self.assign(el, _component(v, i, n), st, frame, stmt)
        elif isinstance(t, ast.Starred):
            self.assign(t.value, ("opaque", "starred"), st, frame, stmt)
        else:
            self.summary.unsupported.append((frame.fn.module, stmt.lineno, "assign target"))

    def write_field(self, obj, name, v, st, frame, stmt, aug=None, old=None, rhs=None):
        if old is None:
            old = st.heap.get((canon(obj), name), ("fld", obj, name, st.version(name, self.group(obj, frame))))
        self.emit(Event("write", obj=obj, field=name, value=v, aug=aug, old=old, extra=rhs), stmt, st, frame)
        self.group(obj, frame)
        st.heap[(canon(obj), name)] = v

    # ---- control flow --------------------------------------------------------------------------
    def st_If(self, s, st, frame):
        if _guarded_noop_store(s):
            # `if X.values[i] != v: X.values[i] = v` stores v into the cell whenever that changes it: the plain store
            return self.st_Assign(s.body[0], st, frame)
        cond = self.ev(s.test, st, frame)
        if self.ignore_refresh and not s.orelse and self._is_tree_refresh(s, cond, st, frame):
            return
        self.branch(cond, s.body, s.orelse, st, frame)

    def _is_tree_refresh(self, s, cond, st, frame):
        """if R.stale: R.update(R.now[, None])   with R some node's root, however it is named"""
        if not (isinstance(cond, tuple) and len(cond) == 4 and cond[0] == "fld" and cond[2] == "stale"):
            return False
        R = cond[1]
        if not (isinstance(R, tuple) and len(R) == 4 and R[0] == "fld" and R[2] == "root"):
            return False
        if len(s.body) != 1 or not isinstance(s.body[0], ast.Expr) or not isinstance(s.body[0].value, ast.Call):
            return False
        c = s.body[0].value
        if not (isinstance(c.func, ast.Attribute) and c.func.attr == "update" and not c.keywords and len(c.args) in (1, 2)):
            return False
        if not all(_simple_pure_expr(x) for x in [c.func.value] + list(c.args)):
            return False
        if canon(self.ev(c.func.value, st, frame)) != canon(R):
            return False
        a0 = self.ev(c.args[0], st, frame)
        if not (isinstance(a0, tuple) and len(a0) == 4 and a0[0] == "fld" and a0[2] == "now" and canon(a0[1]) == canon(R)):
            return False
        return len(c.args) == 1 or canon(self.ev(c.args[1], st, frame)) == canon(NONE)

    def branch(self, cond, body, orelse, st, frame):
        lt = literals(cond, True)
        lf = literals(cond, False)
        s1 = st.copy()
        s1.guard.extend(lt)
        s1.graw.append((cond, True))
        s2 = st.copy()
        s2.guard.extend(lf)
        s2.graw.append((cond, False))
        n1, n2 = len(s1.guard), len(s2.guard)
        s1._nraw, s2._nraw = len(s1.graw), len(s2.graw)
        if _contradictory(s1.guard):
            s1.alive = "dead"
        if _contradictory(s2.guard):
            s2.alive = "dead"
        if s1.alive is True:
            self.exec_block(body, s1, frame)
        if s2.alive is True:
            self.exec_block(orelse, s2, frame)
        self.merge_into(st, cond, s1, s2, n1, n2)

    def merge_into(self, st, cond, s1, s2, n1=None, n2=None):
        a1, a2 = s1.alive is True, s2.alive is True
        if a1 and a2:
            base_guard = st.guard
            merged = _merge_states(cond, s1, s2)
            st.locals, st.heap, st.sub = merged.locals, merged.heap, merged.sub
            st.epoch, st.epoch_all = merged.epoch, merged.epoch_all
            # literals added inside both branches by dead sub-branches are path specific:
            # keep only what both branches agree on beyond the common prefix
            extra1 = s1.guard[n1 if n1 is not None else len(base_guard) + len(literals(cond, True)):]
            extra2 = s2.guard[n2 if n2 is not None else len(base_guard) + len(literals(cond, False)):]
            known1, known2 = set(s1.guard[:n1]), set(s2.guard[:n2])
            extra1 = [l for l in extra1 if l not in known1]
            extra2 = [l for l in extra2 if l not in known2]
            common = [l for l in extra1 if l in extra2]
            st.guard = list(base_guard) + common
            # what only one side established (because a sub-branch of it raised / returned) is kept as
            # an implication: cond => extra1, not cond => extra2
            only1 = [l for l in extra1 if l not in common]
            only2 = [l for l in extra2 if l not in common]
            if only1:
                st.guard.append((("impl", canon(("or", ("not", cond), _conj(only1)))), True))
            if only2:
                st.guard.append((("impl", canon(("or", cond, _conj(only2)))), True))
            r1 = [r for r in s1.graw[getattr(s1, "_nraw", len(s1.graw)):]]
            r2 = [r for r in s2.graw[getattr(s2, "_nraw", len(s2.graw)):]]
            if only1 and r1:
                st.graw.append((("or", ("not", cond), _conj(r1)), True))
            if only2 and r2:
                st.graw.append((("or", cond, _conj(r2)), True))
        elif a1:
            st.locals, st.heap, st.sub, st.guard = s1.locals, s1.heap, s1.sub, s1.guard
            st.epoch, st.epoch_all, st.graw = s1.epoch, s1.epoch_all, s1.graw
        elif a2:
            st.locals, st.heap, st.sub, st.guard = s2.locals, s2.heap, s2.sub, s2.guard
            st.epoch, st.epoch_all, st.graw = s2.epoch, s2.epoch_all, s2.graw
        else:
            st.alive = s1.alive if s1.alive == s2.alive else "dead"
            if s1.alive in ("continue", "break") or s2.alive in ("continue", "break"):
                st.alive = "dead"

    def st_For(self, s, st, frame):
        it = self.ev(s.iter, st, frame)
        if isinstance(it, tuple) and it and it[0] in ("tuple", "list") and len(it) - 1 <= 4 and not s.orelse and not any(
                isinstance(n, (ast.Break, ast.Continue)) for b in s.body for n in ast.walk(b)) and not any(isinstance(x, tuple) and x and x[0] == "starred" for x in it[1:]):
            # a loop over a literal sequence of known length is its unrolling
            for x in it[1:]:
                if st.alive is not True:
                    break
                self.assign(s.target, x, st, frame, s)
                self.exec_block(s.body, st, frame)
            return
        self.run_loop(s, it, s.target, s.body, st, frame, conds=())
        if s.orelse and st.alive is True:
            self.exec_block(s.orelse, st, frame)

    def run_loop(self, node, it, target, body, st, frame, conds=(), body_expr=None):
        """Summarise one `for` loop (or comprehension generator) over iterable value `it`."""
        depth = len(frame.loops)
        pre_filter = ()
        if (isinstance(it, tuple) and len(it) == 5 and it[0] == "comp" and it[1] in ("list", "gen") and isinstance(it[2], tuple) and it[2][:1] == ("elem",) and len(it[2]) == 3
                and it[2][1] == it[3]):
            # iterating [x for x in xs if cond(x)] is iterating xs under the filter cond
            inner_elem, filt_, it = it[2], it[4], it[3]
            new_elem = ("elem", it, depth)
            pre_filter = tuple((sym.substitute(a_, {inner_elem: new_elem}), p_) for a_, p_ in filt_)
        elem = ("elem", it, depth)
        loop = Loop(node, it, elem)
        # loop-carried candidates: every local / heap slot assigned in the body
        carried_names, carried_fields = _assigned_in(body if body_expr is None else [])
        pre_locals = dict(st.locals)
        pre_heap = dict(st.heap)
        lid = next(self._ids)
        for n in carried_names:
            if n in st.locals:
                st.locals[n] = ("lc", n, lid)
        lc_fields = {}
        tnames = set(el.id for el in _flatten_targets(target) if isinstance(el, ast.Name)) if target is not None else set()
        for (objsrc, fname) in carried_fields:
            # only slots whose object is loop-invariant (self.x, target.x ...)
            if any(isinstance(n_, ast.Name) and n_.id in tnames for n_ in ast.walk(objsrc)):
                continue
            try:
                objv = self.ev(objsrc, st.copy(), frame, quiet=True)
            except Exception:
                continue
            if sym.contains(objv, lambda n: n[0] == "elem" and n == elem):
                continue
            key = (canon(objv), fname)
            lc_fields[key] = (objv, st.heap.get(key, ("fld", objv, fname, st.version(fname, self.group(objv, frame)))))
            st.heap[key] = ("lc", "%s.%s" % (sym.fmt(objv), fname), lid)
        frame.loops.append(loop)
        body_state = st.copy()
        self.bind_target(target, elem, it, body_state, frame, node)
        for a_, p_ in pre_filter:
            body_state.guard.append((a_, p_))
            loop.filter.append((a_, p_))
        for c in conds:
            cv = self.ev(c, body_state, frame)
            body_state.guard.extend(literals(cv, True))
            body_state.graw.append((cv, True))
            loop.filter.extend(literals(cv, True))
        loop.guard0 = list(body_state.guard)
        if body_expr is not None:
            loop.value = self.ev(body_expr, body_state, frame) if not isinstance(body_expr, tuple) else tuple(self.ev(b, body_state, frame) for b in body_expr)
        else:
            self.exec_block(body, body_state, frame)
        frame.loops.pop()
        # calls made in the body may have clobbered fields: keep those epochs after the loop
        for f_ in [body_state] + [ps for _, ps in loop.pending]:
            for n_, e_ in f_.epoch.items():
                if st.epoch.get(n_) != e_:
                    st.epoch[n_] = e_
                    for k_ in [k_ for k_ in st.heap if k_[1] == n_[1] and _GROUPS.get(k_[0], "O") == n_[0] and k_ not in lc_fields]:
                        del st.heap[k_]
            if f_.epoch_all != st.epoch_all:
                st.epoch_all = f_.epoch_all
        # final per-iteration states: fall-through + continues
        finals = []
        if body_state.alive is True:
            finals.append(body_state)
        for kind, ps in loop.pending:
            if kind == "continue":
                finals.append(ps)
        returned = body_state.alive in ("return", "raise") and not finals
        base_len = len(loop.guard0) - len(loop.filter)

        def rel_guard(s_):
            return tuple(s_.guard[base_len:])

        # locals
        for n in carried_names:
            if n not in pre_locals:
                # defined inside the loop only: keep the last value as an opaque loop result
                vals = [f.locals.get(n) for f in finals if n in f.locals]
                if vals:
                    st.locals[n] = ("loopval", lid, n, vals[-1])
                continue
            L = ("lc", n, lid)
            st.locals[n] = self._close_carried(L, pre_locals[n], [(rel_guard(f), f.locals.get(n, L)) for f in finals], it, loop, lid, n)
        for key, (objv, pre) in lc_fields.items():
            L = ("lc", "%s.%s" % (sym.fmt(objv), key[1]), lid)
            st.heap[key] = self._close_carried(L, pre, [(rel_guard(f), f.heap.get(key, L)) for f in finals], it, loop, lid, key[1])
        # heap slots on the element are per-iteration: drop them
        for key in list(st.heap):
            pass
        # sub stores made in the loop on loop-invariant containers survive as opaque
        for f in finals:
            for k, v in f.sub.items():
                if k not in st.sub or st.sub[k] is not v:
                    st.sub[k] = ("loopval", lid, "sub", v)
        # remaining heap entries written inside the loop body on non-carried keys
        for f in finals:
            for k, v in f.heap.items():
                if k in lc_fields:
                    continue
                if k not in pre_heap or pre_heap[k] is not v:
                    if sym.contains(k[0], lambda n: n == elem):
                        continue
                    st.heap[k] = ("loopval", lid, k[1], v)
        for lname, sites in loop.dict_stores.items():
            reads = [n_ for b_ in (body if body_expr is None else []) for n_ in ast.walk(b_) if isinstance(n_, ast.Name) and n_.id == lname and isinstance(n_.ctx, ast.Load)]
            if len(sites) == 1 and len(reads) == 1 and st.locals.get(lname) == ("dict",) and sites[0][3].kind == "store":
                key, val, rel, ev_ = sites[0]
                st.locals[lname] = ("comp", "dict", ("tuple", key, val), it, tuple(rel))
                if ev_ in self.summary.events:
                    self.summary.events.remove(ev_)
                for k_ in [k_ for k_ in st.sub if k_[0] == canon(("dict",))]:
                    del st.sub[k_]
        for lname, sites in loop.appends.items():
            if len(sites) == 1 and st.locals.get(lname) == sites[0][3]:
                expr, rel, kind_, init_ = sites[0]
                acc = ("comp", "list", expr, it, tuple(rel))
                st.locals[lname] = acc if init_ == ("list",) else ("+", init_, acc)
            elif lname in st.locals:
                st.locals[lname] = ("loopval", lid, lname, ("list",))
        return loop

    def _close_carried(self, L, pre, finals, it, loop, lid, name):
        """Close a loop-carried slot: unchanged / additive accumulation / opaque."""
        if not finals:
            return pre
        allcases = []
        for g, v in finals:
            for g2, leaf in sym.cases(v):
                allcases.append((tuple(g) + tuple(g2), leaf))
        if all(canon(leaf) == canon(L) for _, leaf in allcases):
            return pre
        uses_L = lambda x: sym.contains(x, lambda n: n == L)
        body_fn = ("cases",) + tuple(("case", tuple(g), leaf) for g, leaf in allcases)
        if any(any(uses_L(a) for a, _ in g) for g, _ in allcases):
            return ("loopmix", lid, name, pre, body_fn)
        terms = []
        additive = True
        for g, leaf in allcases:
            try:
                d = sym.to_rat(("-", leaf, L))
            except Exception:
                additive = False
                break
            if any(uses_L(a) for a in d.atoms()):
                additive = False
                break
            if d.is_zero():
                continue
            terms.append((g, d.canon()))
        if additive:
            out = pre
            for gs, d in _merge_guarded_terms(terms):
                out = ("+", out, ("sum", it, gs, d))
            return out
        if not any(uses_L(leaf) for _, leaf in allcases):
            return ("loopval", lid, name, allcases[-1][1])
        return ("loopmix", lid, name, pre, body_fn)

    def bind_target(self, target, elem, it, st, frame, node):
        if isinstance(target, ast.Name):
            st.locals[target.id] = elem
        elif isinstance(target, (ast.Tuple, ast.List)):
            n = len(target.elts)
            for i, el in enumerate(target.elts):
                self.bind_target(el, ("item", elem, i), it, st, frame, node)
        else:
            self.assign(target, elem, st, frame, node)

    def st_While(self, s, st, frame):
        # `while True: if C: break; BODY`  is  `while not C: BODY`
        if (isinstance(s.test, ast.Constant) and s.test.value is True and not s.orelse and s.body and isinstance(s.body[0], ast.If) and not s.body[0].orelse
                and len(s.body[0].body) == 1 and isinstance(s.body[0].body[0], ast.Break) and len(s.body) > 1):
            s = ast.copy_location(ast.While(test=ast.copy_location(ast.UnaryOp(op=ast.Not(), operand=s.body[0].test), s.body[0]), body=s.body[1:], orelse=[]), s)
        lid = next(self._ids)
        names, fields = _assigned_in(s.body)
        pre = dict(st.locals)
        for n in names:
            if n in st.locals:
                st.locals[n] = ("wl", n, lid)
        loop = Loop(s, ("while", lid), ("elem", ("while", lid), len(frame.loops)))
        loop.is_while = True
        frame.loops.append(loop)
        bs = st.copy()
        test = self.ev(s.test, bs, frame)
        loop.test = test
        bs.guard.extend(literals(test, True))
        loop.guard0 = list(bs.guard)
        self.exec_block(s.body, bs, frame)
        frame.loops.pop()
        loop.pre = pre
        loop.lid = lid
        loop.names = list(names)
        loop.body_state = bs
        loop.entry_guard = tuple(st.guard)
        loop.entry_graw = tuple(st.graw)
        self.summary.while_loops.append(loop)
        for n in names:
            st.locals[n] = ("wlout", n, lid, pre.get(n, ("undef",)))
        for (objsrc, fname) in fields:
            try:
                objv = self.ev(objsrc, st.copy(), frame, quiet=True)
            except Exception:
                continue
            st.heap[(canon(objv), fname)] = ("wlout", fname, lid, ("fld", objv, fname, 0))
        frame.while_loops.append((loop, bs))

    def st_Try(self, s, st, frame):
        tid = next(self._ids)
        pre = st.copy()
        # model: an exception caught by a handler is raised before the body had any effect, so the body's
        # effects happen only when no handler fires
        atoms = []
        for h in s.handlers:
            en = h.type.id if isinstance(h.type, ast.Name) else None
            atoms.append(("raised", tid, en))
        # a body made only of look-ups, guarded against KeyError: the exception is raised exactly when one of the keys is missing,
        # so the condition is that disjunction (and `try: a[k1][k2]` composes with `try: a[k1]` followed by `try: _[k2]`)
        if len(s.handlers) == 1 and atoms[0][2] == "KeyError" and not s.finalbody and self._lookup_only(s.body):
            # probe run of the body on a scratch state: every subscript it evaluates, in evaluation order
            probe = st.copy()
            probe_frame = Frame(frame.fn, frame.host, frame.chain)
            probe_frame.loops = list(frame.loops)
            saved_events, saved_trace = self.summary.events, getattr(self, "_sub_trace", None)
            self.summary.events = []
            self._sub_trace = []
            try:
                self.exec_block(s.body, probe, probe_frame)
                # positional indexers do not raise KeyError
                miss = [("cmp", "notin", k_, d_) for d_, k_ in self._sub_trace if not (isinstance(d_, tuple) and len(d_) == 3 and d_[0] == "attr" and d_[2] in ("iloc", "values", "iat"))]
                if miss and len(miss) <= 6:
                    atoms[0] = miss[0] if len(miss) == 1 else ("or",) + tuple(miss)
            except Exception:
                pass
            finally:
                self.summary.events = saved_events
                self._sub_trace = saved_trace
        body_lits = []
        for a in atoms:
            body_lits.extend(literals(a, False) if a[0] != "raised" else [(a, False)])
        n_before = len(st.guard)
        st.guard.extend(body_lits)
        if atoms and atoms[0][0] != "raised":
            st.graw.append((atoms[0], False))
        self.exec_block(s.body, st, frame)
        if s.orelse and st.alive is True:
            self.exec_block(s.orelse, st, frame)
        for h, atom in zip(s.handlers, atoms):
            hs = pre.copy()
            h_lits = literals(atom, True) if atom[0] != "raised" else [(atom, True)]
            h_start = len(hs.guard)
            hs.guard.extend(h_lits)
            if atom[0] != "raised":
                hs.graw.append((atom, True))
            if h.name:
                hs.locals[h.name] = ("opaque", "exc")
            self.exec_block(h.body, hs, frame)
            if hs.guard[h_start:h_start + len(h_lits)] == h_lits:
                del hs.guard[h_start:h_start + len(h_lits)]  # only what this handler added (the same fact may be known from before)
            if hs.alive is True and st.alive is True:
                merged = _merge_states(atom, hs, st)
                st.locals, st.heap, st.sub = merged.locals, merged.heap, merged.sub
                st.epoch, st.epoch_all = merged.epoch, merged.epoch_all
                if st.guard[n_before:n_before + len(body_lits)] == body_lits:
                    del st.guard[n_before:n_before + len(body_lits)]
                    body_lits = []
                st.graw = [r_ for r_ in st.graw if r_ != (atom, False)]
            elif hs.alive is True:
                st.locals, st.heap, st.sub, st.guard, st.alive = hs.locals, hs.heap, hs.sub, hs.guard, True
        if s.finalbody and st.alive is True:
            self.exec_block(s.finalbody, st, frame)

    @staticmethod
    def _lookup_only(body):
        """the body only looks things up: assignments / returns / bare expressions (possibly in a `for` over a local) made of
        names, attribute reads, subscripts and constants - nothing that could raise KeyError other than a missing key"""
        ok_expr = (ast.Name, ast.Attribute, ast.Subscript, ast.Constant, ast.Load, ast.Store, ast.Tuple)
        seen_sub = [False]

        def expr_ok(val):
            for n_ in ast.walk(val):
                if (isinstance(n_, ast.Call) and isinstance(n_.func, ast.Attribute) and n_.func.attr == "get_loc" and isinstance(n_.func.value, ast.Attribute)
                        and n_.func.value.attr == "index" and len(n_.args) == 1 and not n_.keywords):
                    seen_sub[0] = True  # index.get_loc(label): KeyError exactly when the label is not in the index
                    continue
                if not isinstance(n_, ok_expr):
                    return False
                if isinstance(n_, ast.Subscript):
                    seen_sub[0] = True
            return True

        def block_ok(stmts):
            for b_ in stmts:
                if isinstance(b_, ast.Assign) and len(b_.targets) == 1 and isinstance(b_.targets[0], (ast.Name, ast.Attribute)):
                    if not expr_ok(b_.value):
                        return False
                elif isinstance(b_, ast.AnnAssign) and b_.value is not None and isinstance(b_.target, (ast.Name, ast.Attribute)):
                    if not expr_ok(b_.value):
                        return False
                elif isinstance(b_, (ast.Return, ast.Expr)) and b_.value is not None:
                    if not expr_ok(b_.value):
                        return False
                elif isinstance(b_, ast.For) and isinstance(b_.iter, ast.Name) and not b_.orelse:
                    if not block_ok(b_.body):
                        return False
                else:
                    return False
            return True

        return bool(body) and block_ok(body) and seen_sub[0]

    @staticmethod
    def _subscripts_in_eval_order(expr):
        out = []

        def rec(n_):
            for c_ in ast.iter_child_nodes(n_):
                rec(c_)
            if isinstance(n_, ast.Subscript):
                out.append(n_)
        rec(expr)
        return out

    def st_With(self, s, st, frame):
        for it in s.items:
            v = self.ev(it.context_expr, st, frame)
            if it.optional_vars is not None:
                self.assign(it.optional_vars, v, st, frame, s)
        self.exec_block(s.body, st, frame)

    # ------------------------------------------------------------------------------------------
    # expressions
    def ev(self, e, st, frame, quiet=False):
        if e is None:
            return NONE
        m = getattr(self, "ex_" + type(e).__name__, None)
        if m is None:
            return ("opaque", type(e).__name__, getattr(e, "lineno", 0))
        if quiet:
            saved = self.summary.events
            self.summary.events = []
            try:
                return m(e, st, frame)
            finally:
                self.summary.events = saved
        return m(e, st, frame)

    def ex_Constant(self, e, st, frame):
        v = e.value
        if v is None:
            return NONE
        if isinstance(v, bool):
            return ("bool", v)
        if isinstance(v, (int, float)):
            return sym.num(v)
        if isinstance(v, str):
            return ("str", v)
        if v is Ellipsis:
            return ("opaque", "...")
        return ("opaque", repr(v))

    def ex_JoinedStr(self, e, st, frame):
        out = []
        for v_ in e.values:
            if isinstance(v_, ast.Constant) and isinstance(v_.value, str):
                if v_.value:
                    out.append(("str", v_.value))
            elif isinstance(v_, ast.FormattedValue) and v_.format_spec is None and v_.conversion in (-1, 115):
                out.append(self.ev(v_.value, st, frame))
            else:
                return ("opaque", "fstring")
        return ("strcat",) + tuple(out)

    def ex_Name(self, e, st, frame):
        return self.lookup(e.id, st, frame)

    def lookup(self, name, st, frame):
        if name in st.locals:
            v_ = st.locals[name]
            if isinstance(v_, tuple) and len(v_) == 4 and v_[0] == "fld" and v_[2] in ALIASED_CONTAINER_FIELDS:
                # a local bound to one of the tree's own containers is an alias of that (mutable, never re-assigned) object: it shows what the container holds NOW
                return self.read_field(v_[1], v_[2], st, frame, None)
            return v_
        mod = frame.fn.module
        fi = self.prog.functions.get((mod, name))
        if fi is not None:
            return ("func", name)
        if name in self.prog.classes:
            return ("class", name)
        cnode = self.prog.constants.get((mod, name))
        if cnode is not None:
            try:
                v = ast.literal_eval(cnode)
                if isinstance(v, (int, float)) and not isinstance(v, bool):
                    return sym.num(v)
            except Exception:
                pass
            return ("global", mod, name)
        # names imported from bt.core into algos
        for (m2, n2), f2 in self.prog.functions.items():
            if n2 == name and m2 != mod:
                return ("func", name)
        # a numeric module constant imported by name from another module of the package (from bt.core import PAR)
        tree_ = self.prog.trees.get(mod) if hasattr(self.prog, "trees") else None
        if tree_ is not None:
            for st_ in getattr(tree_, "body", []):
                if isinstance(st_, ast.ImportFrom) and any((a_.asname or a_.name) == name for a_ in st_.names):
                    orig = [a_.name for a_ in st_.names if (a_.asname or a_.name) == name][0]
                    for (m2, n2), cnode2 in self.prog.constants.items():
                        if n2 == orig and m2 != mod and (st_.module or "").replace(".", "/") in m2.replace(".py", ""):
                            try:
                                v = ast.literal_eval(cnode2)
                                if isinstance(v, (int, float)) and not isinstance(v, bool):
                                    return sym.num(v)
                            except Exception:
                                pass
        if name in ("deepcopy",):
            return ("func", "deepcopy")
        if name in PURE_MODULES or name in ("bt", "cy", "cython"):
            return ("mod", name)
        if name in BUILTINS:
            return ("func", name)
        if name in ("True", "False"):
            return ("bool", name == "True")
        return ("global", mod, name)

    def ex_Attribute(self, e, st, frame):
        obj = self.ev(e.value, st, frame)
        return self.read_attr(obj, e.attr, st, frame, e)

    def _namedtuple_attr(self, obj, name):
        """field `name` of a namedtuple value (through phi nodes), else None"""
        nt = getattr(self, "_nt_fields", None)
        if not nt or not isinstance(obj, tuple) or not obj:
            return None
        if obj[0] == "tuple" and obj in nt and name in nt[obj]:
            return obj[1 + nt[obj].index(name)]
        if obj[0] == "ite" and len(obj) == 4:
            a, b = self._namedtuple_attr(obj[2], name), self._namedtuple_attr(obj[3], name)
            if a is not None or b is not None:
                return _ite(obj[1], a if a is not None else ("attr", obj[2], name), b if b is not None else ("attr", obj[3], name))
        return None

    def _result_field_index(self, obj, name):
        """index of field `name` when obj is the result of a call whose callee(s) return a namedtuple built in their body, else None"""
        if not (isinstance(obj, tuple) and len(obj) == 2 and obj[0] == "res"):
            return None
        ev = None
        for e_ in reversed(self.summary.events):
            if e_.kind == "call" and e_.result == obj:
                ev = e_
                break
        if ev is None or not ev.callee:
            return None
        idx = set()
        for c_ in ev.callee:
            node_ = getattr(c_, "node", None)
            if node_ is None:
                return None
            found = False
            for n_ in ast.walk(node_):
                if isinstance(n_, ast.Return) and isinstance(n_.value, ast.Call) and isinstance(n_.value.func, ast.Name):
                    fields = self._namedtuple_fields(n_.value.func.id, Frame(c_, c_.cls, (c_.qual,)))
                    if fields is not None and name in fields:
                        idx.add(fields.index(name))
                        found = True
            if not found:
                return None
        return idx.pop() if len(idx) == 1 else None

    def read_attr(self, obj, name, st, frame, node):
        ntv = self._namedtuple_attr(obj, name)
        if ntv is not None:
            return ntv
        k_ = self._result_field_index(obj, name)
        if k_ is not None:
            return _component(obj, k_, None)  # the field of a named tuple returned by the callee is that component of its result
        t = obj[0]
        if t == "mod":
            dotted = "%s.%s" % (obj[1], name)
            if dotted in ("np.nan", "numpy.nan", "math.nan", "np.NaN"):
                return ("nan",)
            if dotted in ("bt.core", "bt.algos", "bt.backtest", "bt.ffn", "sklearn.covariance", "np.linalg", "np.random", "pd.Timestamp"):
                return ("mod", dotted)
            if obj[1] == "bt.core":
                if name in self.prog.classes:
                    return ("class", name)
                v = self.prog.const_value("bt/core.py", name)
                if isinstance(v, (int, float)):
                    return sym.num(v)
            if obj[1] == "bt" and name in self.prog.classes:
                return ("class", name)
            return ("func", dotted)
        if t == "func" and obj[1] == "pd.Timestamp":
            return ("func", "pd.Timestamp." + name)
        if t == "super":
            return ("bound", obj, name)
        if t == "class":
            fi = self.prog.resolve(obj[1], name)
            if fi is not None:
                return ("clsmethod", obj[1], name)
            return ("attr", obj, name)
        key = (canon(obj), name)
        if key in st.heap:
            return st.heap[key]
        nt = self.ntype(obj, frame)
        if nt is not None:
            return self.read_node_attr(obj, nt, name, st, frame, node)
        if obj == SELF:
            # self of a non-node class (Algo subclasses, Backtest, Result)
            fi = self.prog.resolve(frame.host, name) if frame.host else None
            if fi is not None and fi.is_property:
                return self.read_property(obj, [fi], name, st, frame, node)
            if fi is not None:
                return ("bound", obj, name)
            return ("fld", obj, name, st.version(name, self.group(obj, frame)))
        # pandas' scalar accessors address the same cell as the general ones: X.at[r, c] is X.loc[r, c], X.iat[i, j] is X.iloc[i, j]
        return ("attr", obj, {"at": "loc", "iat": "iloc"}.get(name, name))

    def read_field(self, obj, name, st, frame, node, emit=True):
        key = (canon(obj), name)
        if key in st.heap:
            return st.heap[key]
        return ("fld", obj, name, st.version(name, self.group(obj, frame)))

    def family(self, nt):
        fam = set(self.prog.subclasses(nt)) | set(self.prog.mro(nt))
        return [c for c in fam if c in self.prog.classes]

    def read_node_attr(self, obj, nt, name, st, frame, node):
        if obj == SELF and frame.host:
            fi = self.prog.resolve(frame.host, name)
            cands = [fi] if fi is not None else []
            # subclasses of the host may override
            for sc in self.prog.subclasses(frame.host):
                ci = self.prog.classes[sc]
                if name in ci.methods and ci.methods[name] not in cands:
                    cands.append(ci.methods[name])
        else:
            cands = []
            for c in self.family(nt):
                ci = self.prog.classes[c]
                if name in ci.methods and ci.methods[name] not in cands:
                    cands.append(ci.methods[name])
        props = [c for c in cands if c.is_property]
        if props:
            return self.read_property(obj, props, name, st, frame, node)
        if cands:
            return ("bound", obj, name)
        return ("fld", obj, name, st.version(name, self.group(obj, frame)))

    def read_property(self, obj, props, name, st, frame, node):
        self.emit(Event("propread", obj=obj, name=name, callee=props), node, st, frame)
        backs = set()
        for p in props:
            backs.add(property_backing(p))
        backs.discard(("abstract",))
        if len(backs) == 1:
            b = backs.pop()
            if b[0] == "field":
                return self.read_field(obj, b[1], st, frame, node)
            if b[0] == "series":
                return ("hist", obj, b[1])
        if len(props) == 1 and name not in self.no_inline and len(frame.chain) <= self.inline_depth:
            # a computed property whose body is one `return <expression>` (no statements, no refresh) is that expression
            p0 = props[0]
            body = [b_ for b_ in p0.node.body if not (isinstance(b_, ast.Expr) and isinstance(b_.value, ast.Constant))]
            if len(body) == 1 and isinstance(body[0], ast.Return) and body[0].value is not None and p0.qual not in frame.chain:
                return self.call_function(p0, obj, frame.host if obj == SELF_OF(frame) else (p0.cls), [], {}, st, frame, node, recv=obj, via_super=True, closure=None)
        return ("prop", obj, name)

    def ntype(self, v, frame):
        """Role typing of receivers (E6): is this value a tree node, and of which family?"""
        t = v[0]
        if t == "param":
            if v[1] == "self":
                h = frame.host
                if h and self.prog.is_subclass(h, "Node"):
                    return h
                return None
            if v[1] in NODE_PARAM_NAMES and not (frame.fn.cls is None and frame.fn.name in ("_get_unit_risk",)):
                return "Node"
            return None
        if t == "fld":
            if v[2] in NODE_FIELDS:
                return "StrategyBase" if v[2] in ("_paper", "strategy") else "Node"
            return None
        if t in ("elem",):
            return "Node" if self.is_child_collection(v[1], frame) else None
        if t == "item":
            # (name, node) pairs of children.items()
            base = v[1]
            if base[0] == "elem" and v[2] == 1:
                it = base[1]
                while it[0] == "call" and it[1] in ("list", "tuple") and len(it[2]) == 1:
                    it = it[2][0]  # a snapshot of the pairs
                if it[0] == "mcall" and it[2] == "items" and self.is_children_dict(it[1], frame):
                    return "Node"
            return None
        if t == "sub":
            b = v[1]
            if self.is_children_dict(b, frame):
                return "Node"
            if self.ntype(b, frame) is not None:
                return "Node"
            return None
        if t == "call":
            if v[1] == "deepcopy" and v[2]:
                return self.ntype(v[2][0], frame)
            return None
        if t == "new":
            return v[1] if self.prog.is_subclass(v[1], "Node") else None
        if t == "mcall":
            if v[2] in ("pop", "get") and v[1][0] == "fld" and v[1][2] in ("_lazy_children", "children"):
                return "Node"
            return None
        if t == "ite":
            return self.ntype(v[2], frame) or self.ntype(v[3], frame)
        if t in ("loopval",):
            return self.ntype(v[3], frame) if isinstance(v[3], tuple) else None
        return None

    def is_children_dict(self, v, frame):
        return v[0] == "fld" and v[2] == "children"

    def is_child_collection(self, it, frame):
        t = it[0]
        if t == "fld" and it[2] in CHILD_COLLECTION_FIELDS:
            return True
        if t == "prop" and it[2] in CHILD_COLLECTION_PROPS:
            return True
        if t == "mcall" and it[2] == "values" and self.is_children_dict(it[1], frame):
            return True
        if t == "call" and it[1] in ("list", "tuple", "sorted", "reversed", "iter") and it[2]:
            return self.is_child_collection(it[2][0], frame)
        if t == "comp":
            # [x for x in members if ...]
            return self.ntype(it[2], frame) is not None if isinstance(it[2], tuple) else False
        if t in ("list", "tuple"):
            return len(it) > 1 and all(self.ntype(x, frame) is not None for x in it[1:])
        return False

    def ex_Subscript(self, e, st, frame):
        base = self.ev(e.value, st, frame)
        idx = self.ev_index(e.slice, st, frame)
        if getattr(self, "_sub_trace", None) is not None:
            self._sub_trace.append((base, idx))
        k = (canon(base), canon(idx))
        if k in st.sub:
            return st.sub[k]
        if base[0] in ("tuple", "list") and sym.is_num(idx):
            i = int(idx[1])
            if -len(base) + 1 <= i < len(base) - 1:
                return base[1:][i]
        if base[0] in ("res", "ite") and sym.is_num(idx) and idx[1] == int(idx[1]) and idx[1] >= 0:
            # a component of a call's result: the same value whether taken by indexing or by tuple unpacking
            probe = base
            while probe[0] == "ite":
                probe = probe[2]
            if probe[0] in ("res", "tuple"):
                return _component(base, int(idx[1]), None)
        return ("sub", base, idx)

    def ev_index(self, sl, st, frame):
        if isinstance(sl, ast.Slice):
            return ("slice", self.ev(sl.lower, st, frame), self.ev(sl.upper, st, frame), self.ev(sl.step, st, frame))
        if isinstance(sl, ast.Tuple):
            return ("tuple",) + tuple(self.ev_index(x, st, frame) for x in sl.elts)
        return self.ev(sl, st, frame)

    def ex_Slice(self, e, st, frame):
        return self.ev_index(e, st, frame)

    def ex_Tuple(self, e, st, frame):
        return ("tuple",) + tuple(self.ev(x, st, frame) for x in e.elts)

    def ex_List(self, e, st, frame):
        return ("list",) + tuple(self.ev(x, st, frame) for x in e.elts)

    def ex_Set(self, e, st, frame):
        return ("set",) + tuple(self.ev(x, st, frame) for x in e.elts)

    def ex_Dict(self, e, st, frame):
        if e.keys and all(k is None for k in e.keys):
            # {**a, **b}: later entries win
            vals = [self.ev(v, st, frame) for v in e.values]
            out = vals[0]
            for v in vals[1:]:
                out = ("dictmerge", out, v)
            return out if len(vals) > 1 else ("mcall", vals[0], "copy", (), ())
        return ("dict",) + tuple(("tuple", self.ev(k, st, frame) if k is not None else ("opaque", "**"), self.ev(v, st, frame)) for k, v in zip(e.keys, e.values))

    def ex_Starred(self, e, st, frame):
        return ("starred", self.ev(e.value, st, frame))

    def ex_Lambda(self, e, st, frame):
        return ("lambda", e.lineno)

    def ex_NamedExpr(self, e, st, frame):
        v = self.ev(e.value, st, frame)
        self.assign(e.target, v, st, frame, e)
        return v

    def ex_UnaryOp(self, e, st, frame):
        v = self.ev(e.operand, st, frame)
        if isinstance(e.op, ast.Not):
            return ("not", v)
        if isinstance(e.op, ast.USub):
            return ("neg", v)
        if isinstance(e.op, ast.UAdd):
            return v
        if isinstance(e.op, ast.Invert):
            return ("invert", v)
        return ("opaque", "unary")

    def ex_BinOp(self, e, st, frame):
        if isinstance(e.op, ast.Mod) and isinstance(e.left, ast.Constant) and isinstance(e.left.value, str):
            # "a%sb" % x  /  "a%sb%sc" % (x, y): the text pieces and the values formatted into them (same form as an f-string)
            pieces = _percent_pieces(e.left.value)
            vals = e.right.elts if isinstance(e.right, ast.Tuple) else [e.right]
            if pieces is not None and len(pieces) == len(vals) + 1 and not any(isinstance(v_, ast.Starred) for v_ in vals):
                out = []
                for k_, v_ in enumerate(vals):
                    if pieces[k_]:
                        out.append(("str", pieces[k_]))
                    out.append(self.ev(v_, st, frame))
                if pieces[-1]:
                    out.append(("str", pieces[-1]))
                return ("strcat",) + tuple(out)
        a = self.ev(e.left, st, frame)
        b = self.ev(e.right, st, frame)
        return (_binop(e.op), a, b)

    def ex_BoolOp(self, e, st, frame):
        is_and = isinstance(e.op, ast.And)
        if not is_and and len(e.values) == 2 and _empty_container_literal(e.values[1]):
            # x or []   (the default-for-None idiom): x unless it is None - an empty x and a fresh empty container are the same thing to every reader
            x = self.ev(e.values[0], st, frame)
            return ("ite", ("cmp", "is", x, NONE), self.ev(e.values[1], st, frame), x)
        if not any(isinstance(n, ast.Call) for x in e.values[1:] for n in ast.walk(x)):
            vals = [self.ev(x, st, frame) for x in e.values]
            return ("and" if is_and else "or",) + tuple(vals)

        # short circuit: a later operand (and the calls inside it) is evaluated only when the earlier ones let it
        def go(i, cur):
            v = self.ev(e.values[i], cur, frame)
            if i == len(e.values) - 1:
                return [v]
            s1, s2, n1, n2 = self._fork(cur, v)
            cont = s1 if is_and else s2
            rest = go(i + 1, cont) if cont.alive is True else [NONE]
            self.merge_into(cur, v, s1, s2, n1, n2)
            return [v] + rest

        return ("and" if is_and else "or",) + tuple(go(0, st))

    def ex_Compare(self, e, st, frame):
        left = self.ev(e.left, st, frame)
        parts = []
        for op, right in zip(e.ops, e.comparators):
            r = self.ev(right, st, frame)
            parts.append(("cmp", _cmpop(op), left, r))
            left = r
        if len(parts) == 1:
            return parts[0]
        return ("and",) + tuple(parts)

    def _fork(self, st, cond):
        s1, s2 = st.copy(), st.copy()
        s1.guard.extend(literals(cond, True))
        s1.graw.append((cond, True))
        s2.guard.extend(literals(cond, False))
        s2.graw.append((cond, False))
        s1._nraw, s2._nraw = len(s1.graw), len(s2.graw)
        for s_ in (s1, s2):
            if _contradictory(s_.guard):
                s_.alive = "dead"
        return s1, s2, len(s1.guard), len(s2.guard)

    def ex_IfExp(self, e, st, frame):
        # each arm is evaluated under its own condition (its calls and refreshing reads happen only then)
        c = self.ev(e.test, st, frame)
        try:
            cc = canon(c)
        except Exception:
            cc = None
        if cc in (("bool", True), ("bool", False)):
            return self.ev(e.body if cc[1] else e.orelse, st, frame)  # decided where it stands (a default argument, a constant)
        s1, s2, n1, n2 = self._fork(st, c)
        v1 = self.ev(e.body, s1, frame) if s1.alive is True else NONE
        v2 = self.ev(e.orelse, s2, frame) if s2.alive is True else NONE
        self.merge_into(st, c, s1, s2, n1, n2)
        return ("ite", c, v1, v2)

    def ex_ListComp(self, e, st, frame):
        return self.eval_comp(e, st, frame)

    ex_SetComp = ex_ListComp
    ex_GeneratorExp = ex_ListComp
    ex_DictComp = ex_ListComp

    def eval_comp(self, e, st, frame, as_stmt=False):
        kind = {ast.ListComp: "list", ast.SetComp: "set", ast.GeneratorExp: "gen", ast.DictComp: "dict"}[type(e)]
        gens = e.generators
        if isinstance(e, ast.DictComp):
            body = (e.key, e.value)
        else:
            body = e.elt
        inner = st.copy()

        def rec(i, s_):
            g = gens[i]
            it = self.ev(g.iter, s_, frame)
            if i == len(gens) - 1:
                loop = self.run_loop(e, it, g.target, [], s_, frame, conds=g.ifs, body_expr=body)
                val = loop.value
                if isinstance(val, tuple) and val and not isinstance(val[0], str):
                    val = ("tuple",) + tuple(val)
                return ("comp", kind, val, it, tuple(loop.filter))
            # nested generators: evaluate inner with the outer element bound
            depth = len(frame.loops)
            elem = ("elem", it, depth)
            loop = Loop(e, it, elem)
            frame.loops.append(loop)
            self.bind_target(g.target, elem, it, s_, frame, e)
            for c in g.ifs:
                s_.guard.extend(literals(self.ev(c, s_, frame), True))
            v = rec(i + 1, s_)
            frame.loops.pop()
            return ("comp", kind, v, it, ())

        v = rec(0, inner)
        # effects of the element expression on the heap have been emitted as events; a comprehension
        # used as a statement may have written loop-invariant slots
        if as_stmt:
            # the heap after the loop, including what its calls may have clobbered (forgotten slots and advanced epochs)
            st.heap, st.sub = inner.heap, inner.sub
            st.epoch, st.epoch_all = inner.epoch, inner.epoch_all
        return v

    # ---- calls -----------------------------------------------------------------------------------
    def ex_Call(self, e, st, frame):
        # super()
        if isinstance(e.func, ast.Name) and e.func.id == "super":
            return ("super", frame.fn.cls)
        args = []
        for a in e.args:
            v = self.ev(a, st, frame)
            args.append(v)
        kwargs = {}
        for k in e.keywords:
            if k.arg is None:
                kwargs["**"] = self.ev(k.value, st, frame)
            else:
                kwargs[k.arg] = self.ev(k.value, st, frame)
        f = e.func
        if isinstance(f, ast.Attribute):
            recv = self.ev(f.value, st, frame)
            return self.call_method(recv, f.attr, args, kwargs, st, frame, e)
        fv = self.ev(f, st, frame)
        return self.call_value(fv, args, kwargs, st, frame, e)

    def _namedtuple_fields(self, name, frame):
        """fields of a module-level `X = namedtuple("X", [...])`, else None"""
        for (mod, n_), val in self.prog.constants.items():
            if n_ != name or not isinstance(val, ast.Call):
                continue
            f = val.func
            fname = f.id if isinstance(f, ast.Name) else f.attr if isinstance(f, ast.Attribute) else None
            if fname == "namedtuple" and len(val.args) >= 2:
                spec = val.args[1]
                if isinstance(spec, (ast.List, ast.Tuple)) and all(isinstance(x, ast.Constant) and isinstance(x.value, str) for x in spec.elts):
                    return [x.value for x in spec.elts]
                if isinstance(spec, ast.Constant) and isinstance(spec.value, str):
                    return spec.value.replace(",", " ").split()
        return None

    def call_value(self, fv, args, kwargs, st, frame, node):
        t = fv[0]
        fnode = getattr(node, "func", None)
        if isinstance(fnode, ast.Name) and fnode.id not in st.locals:
            fields = self._namedtuple_fields(fnode.id, frame)
            if fields is not None and len(args) + len(kwargs) == len(fields) and all(k in fields for k in kwargs) and "**" not in kwargs:
                # a namedtuple is the tuple of its fields
                vals = list(args) + [kwargs[f_] for f_ in fields[len(args):]]
                out_ = ("tuple",) + tuple(vals)
                if not hasattr(self, "_nt_fields"):
                    self._nt_fields = {}
                self._nt_fields[out_] = list(fields)
                return out_
        if t == "ite" and len(fv) == 4 and all(isinstance(a, tuple) and a and a[0] == "func" and "." in a[1] and a[1].split(".")[0] in PURE_MODULES for a in fv[2:]):
            # f = lib.g if c else lib.h; f(x)   is   lib.g(x) if c else lib.h(x)
            return ("ite", fv[1], self.call_value(fv[2], args, kwargs, st, frame, node), self.call_value(fv[3], args, kwargs, st, frame, node))
        if t == "func":
            name = fv[1]
            fi = self.prog.functions.get((frame.fn.module, name))
            if fi is None:
                for (m2, n2), f2 in self.prog.functions.items():
                    if n2 == name:
                        fi = f2
                        break
            if fi is not None and name not in BUILTINS:
                return self.call_function(fi, None, None, args, kwargs, st, frame, node, recv=None)
            if name == "getattr" and len(args) == 2 and not kwargs and args[1][0] == "str":
                return self.read_attr(args[0], args[1][1], st, frame, node)  # getattr(x, "name") is x.name
            if name == "getattr" and len(args) == 3 and not kwargs and args[1][0] == "str":
                # getattr(x, "name", d)   is   x.name if hasattr(x, "name") else d
                c_ = ("call", "hasattr", (args[0], args[1]), ())
                s1, s2, n1, n2 = self._fork(st, c_)
                v1 = self.read_attr(args[0], args[1][1], s1, frame, node) if s1.alive is True else NONE
                self.merge_into(st, c_, s1, s2, n1, n2)
                return ("ite", c_, v1, args[2])
            if name == "dict" and len(args) == 1 and list(kwargs) == ["**"]:
                return ("dictmerge", args[0], kwargs["**"])  # dict(a, **b): b wins
            return ("call", name, tuple(args), tuple(sorted(kwargs.items())))
        if t == "localfunc" and (fv[1], fv[2]) in getattr(self, "_localfuncs", {}):
            node_ = self._localfuncs[(fv[1], fv[2])]
            lf = FuncInfo(frame.fn.module, frame.fn.cls, node_)
            lf.prog = getattr(frame.fn, "prog", None)
            if not any(isinstance(n_, (ast.Nonlocal, ast.Global, ast.Yield, ast.YieldFrom)) for n_ in ast.walk(node_)) and lf.qual not in frame.chain and len(frame.chain) <= self.inline_depth + 2:
                return self.call_function(lf, None, frame.host, args, kwargs, st, frame, node, recv=None, via_super=True, closure=dict(st.locals))
        if t == "class":
            cname = fv[1]
            ev = Event("call", recv=None, name=cname, args=args, kwargs=kwargs, callee=None, extra="new")
            self.emit(ev, node, st, frame)
            return ("new", cname, tuple(args), tuple(sorted(kwargs.items())))
        if t == "bound":
            return self.call_method(fv[1], fv[2], args, kwargs, st, frame, node)
        if t == "attr" and len(fv) == 3 and isinstance(fv[2], str) and not isinstance(getattr(node, "func", None), ast.Attribute):
            # f = x.method; f(a)   is   x.method(a)
            return self.call_method(fv[1], fv[2], args, kwargs, st, frame, node)
        if t == "fld" and (fv[1] == SELF or self.ntype(fv[1], frame) is not None) and fv[2] not in ("stack", "_rb", "_algo", "model", "pred"):
            ev = Event("call", recv=fv[1], name=fv[2], args=args, kwargs=kwargs, extra="fieldcall")
            self.emit(ev, node, st, frame)
            return ("fcall", fv[1], fv[2], tuple(args), tuple(sorted(kwargs.items())))
        # calling a value: an algo, a predicate, a model, a lambda ...
        rid = next(self._ids)
        ev = Event("call", recv=None, name="<value>", args=args, kwargs=kwargs, result=("res", rid), extra=fv)
        self.emit(ev, node, st, frame)
        # an algo / stack called on a node may change anything reachable from its arguments
        if any(self.ntype(a, frame) is not None for a in args):
            self.havoc(st, rid, everything=True)
        return ("res", rid)

    def call_method(self, recv, name, args, kwargs, st, frame, node):
        t = recv[0]
        if t == "mod":
            dotted = "%s.%s" % (recv[1], name)
            if dotted == "copy.deepcopy":
                dotted = "deepcopy"
            if dotted in ("pd.DataFrame", "pd.Series", "pandas.DataFrame", "pandas.Series") and isinstance(node, ast.Call):
                # the fill value decides the dtype of the table: an integer literal gives integer columns (in-place writes into them truncate)
                args, kwargs = list(args), dict(kwargs)
                if node.args and args and not isinstance(node.args[0], ast.Starred):
                    args[0] = _mark_int_fill(node.args[0], args[0])
                for kw_ in node.keywords:
                    if kw_.arg == "data" and "data" in kwargs:
                        kwargs["data"] = _mark_int_fill(kw_.value, kwargs["data"])
            return ("call", dotted, tuple(args), tuple(sorted(kwargs.items())))
        if t == "func":
            return ("call", "%s.%s" % (recv[1], name), tuple(args), tuple(sorted(kwargs.items())))
        if t == "super":
            fi = self.prog.resolve(frame.host, name, after=recv[1]) if frame.host else None
            if fi is None and recv[1]:
                fi = self.prog.resolve(recv[1], name, after=recv[1])
            if fi is None:
                rid = next(self._ids)
                ev = Event("call", recv=SELF, name=name, args=args, kwargs=kwargs, callee=None, result=("res", rid), inlined=False, extra="super-external")
                self.emit(ev, node, st, frame)
                return ("res", rid)
            return self.call_function(fi, SELF_OF(frame), frame.host, args, kwargs, st, frame, node, recv=SELF_OF(frame), via_super=True)
        if t == "class":
            fi = self.prog.resolve(recv[1], name)
            if fi is not None and args:
                # Class.method(self, ...)
                return self.call_function(fi, args[0], frame.host, args[1:], kwargs, st, frame, node, recv=args[0], via_super=True)
            return ("call", "%s.%s" % (recv[1], name), tuple(args), tuple(sorted(kwargs.items())))
        nt = self.ntype(recv, frame)
        is_self = recv == SELF_OF(frame) or recv == SELF
        if nt is not None or (is_self and frame.host):
            # methods of tree nodes / of the host class
            if is_self and frame.host:
                fi = self.prog.resolve(frame.host, name)
                overrides = [sc for sc in self.prog.subclasses(frame.host) if sc != frame.host and name in self.prog.classes[sc].methods]
                if fi is not None and not fi.is_property:
                    if not overrides:
                        return self.call_function(fi, recv, frame.host, args, kwargs, st, frame, node, recv=recv)
                    if name.startswith("_") and not name.startswith("__") and fi.qual not in frame.chain and fi.qual not in self.no_inline and name not in self.no_inline:
                        # a private hook of a template method: the host is the class the function is analysed FOR (each concrete class is analysed on its own),
                        # so the hook is that class's own implementation
                        return self.call_function(fi, recv, frame.host, args, kwargs, st, frame, node, recv=recv)
                    cands = [fi] + [self.prog.classes[sc].methods[name] for sc in overrides]
                    return self.call_opaque(recv, name, cands, args, kwargs, st, frame, node)
            cands = []
            if nt is not None:
                for c in self.family(nt):
                    ci = self.prog.classes[c]
                    if name in ci.methods and not ci.methods[name].is_property and ci.methods[name] not in cands:
                        cands.append(ci.methods[name])
            if len(cands) == 1 and name.startswith("_") and not name.startswith("__") and cands[0].qual not in frame.chain and len(frame.chain) <= self.inline_depth:
                # a private helper of another node with a single implementation: what it does to that node is part of this function
                return self.call_function(cands[0], recv, nt, args, kwargs, st, frame, node, recv=recv)
            if cands:
                return self.call_opaque(recv, name, cands, args, kwargs, st, frame, node)
            # a callable stored in a field (commission_fn, pred, model, stack ...)
            fval = self.read_attr(recv, name, st, frame, node)
            if name in ("stack", "_rb", "_algo", "model") or (fval[0] == "fld" and fval[2] in ("stack",)):
                return self.call_value(fval, args, kwargs, st, frame, node)
            ev = Event("call", recv=recv, name=name, args=args, kwargs=kwargs, extra="fieldcall")
            self.emit(ev, node, st, frame)
            return ("fcall", recv, name, tuple(args), tuple(sorted(kwargs.items())))
        # method of a non-node value (pandas, dict, list ...): pure unless a known mutator
        src_name = node.func.value.id if isinstance(getattr(node, "func", None), ast.Attribute) and isinstance(node.func.value, ast.Name) else None
        if (name == "update" and len(args) == 1 and not kwargs and src_name is not None and src_name in st.locals and isinstance(recv, tuple) and recv
                and (recv[0] in ("dictmerge", "dict") or (recv[0] == "mcall" and recv[2] == "copy") or (recv[0] == "call" and recv[1] == "dict"))):
            # d = a.copy(); d.update(b)  on a dict created in this function: the merge with b winning
            st.locals[src_name] = ("dictmerge", recv, args[0])
            return NONE
        if kwargs.get("inplace") == ("bool", True) and src_name is not None and src_name in st.locals and _is_fresh(recv):
            # x.sort_values(..., inplace=True) on an object created in this function: same as x = x.sort_values(...)
            kw2 = dict((k, v) for k, v in kwargs.items() if k != "inplace")
            st.locals[src_name] = ("mcall", recv, name, tuple(args), tuple(sorted(kw2.items())))
            return NONE
        if (name == "append" and src_name is not None and len(args) == 1 and isinstance(recv, tuple) and recv and recv[0] == "list" and st.locals.get(src_name) == recv
                and not any(getattr(l_, "is_while", False) or True for l_ in frame.loops if src_name in getattr(l_, "appends", {})) and not frame.loops):
            # xs = [..]; xs.append(a)   outside any loop: the literal grows
            st.locals[src_name] = recv + (args[0],)
            return NONE
        if (name == "extend" and src_name is not None and not frame.loops and len(args) == 1 and isinstance(recv, tuple) and recv and _list_value(recv) and st.locals.get(src_name) == recv
                and isinstance(args[0], tuple) and args[0] and args[0][0] == "comp" and args[0][1] in ("list", "gen")):
            # xs.extend(f(c) for c in it)   outside any loop   is   xs = xs + [f(c) for c in it]
            st.locals[src_name] = ("+", recv, ("comp", "list") + tuple(args[0][2:]))
            return NONE
        if name in ("append", "extend") and src_name is not None and frame.loops and len(args) == 1 and isinstance(recv, tuple) and recv and (recv[0] == "listacc" or _list_value(recv)):
            loop = frame.loops[-1]
            if _list_value(recv) and (len(recv) == 1 or name == "extend" or src_name in loop.appends or True) and not getattr(loop, "is_while", False) and st.locals.get(src_name) == recv:
                # res = [..]; for c in xs: res.append(f(c)) / res.extend(g(c))   is   [..] + [f(c) for c in xs] / [m for c in xs for m in g(c)]
                rel = [l for l in st.guard if l not in loop.guard0 or l in loop.filter]
                item = args[0] if name == "append" else ("comp", "list", ("elem", args[0], len(frame.loops)), args[0], ())
                loop.appends.setdefault(src_name, []).append((item, tuple(l for l in rel if not (isinstance(l[0], tuple) and l[0] and l[0][0] == "impl")), name, recv))
                return NONE
        if name == "get_loc" and len(args) == 1 and not kwargs and getattr(self, "_sub_trace", None) is not None and recv[0] == "attr" and recv[2] == "index":
            self._sub_trace.append((recv, args[0]))
        if (name == "setdefault" and not kwargs and len(args) == 2 and recv[0] == "fld" and recv[2] in ("temp", "perm") and isinstance(node, ast.Call)
                and isinstance(node.func, ast.Attribute) and len(node.args) == 2 and all(_simple_pure_expr(a_) for a_ in node.args) and _simple_pure_expr(node.func.value)):
            # d.setdefault(k, v)   is   if k not in d: d[k] = v   followed by   d[k]
            d_, k_, v_ = node.func.value, node.args[0], node.args[1]
            sub_store = ast.Subscript(value=d_, slice=k_, ctx=ast.Store())
            stmt = ast.If(test=ast.Compare(left=k_, ops=[ast.NotIn()], comparators=[d_]), body=[ast.Assign(targets=[sub_store], value=v_)], orelse=[])
            sub_load = ast.Subscript(value=d_, slice=k_, ctx=ast.Load())
            for n_ in (stmt, sub_load):
                ast.copy_location(n_, node)
                ast.fix_missing_locations(n_)
            self.st_If(stmt, st, frame)
            return self.ev(sub_load, st, frame)
        if name == "get" and not kwargs and len(args) in (1, 2) and ((recv[0] == "fld" and recv[2] in ("temp", "perm")) or (recv[0] == "param" and str(recv[1]).startswith("**"))):
            # d.get(k[, default]) on the plain dicts a strategy carries: d[k] when k is present, the default otherwise
            stored = st.sub.get((canon(recv), canon(args[0])))
            inner = stored if stored is not None else ("sub", recv, args[0])
            return ("ite", ("cmp", "in", args[0], recv), inner, args[1] if len(args) == 2 else NONE)
        if name in MUTATORS or kwargs.get("inplace") == ("bool", True):
            ev = Event("call", recv=recv, name=name, args=args, kwargs=kwargs, extra="mutate")
            self.emit(ev, node, st, frame)
            # forget cached element stores of the mutated container
            cr = canon(recv)
            for k in [k for k in st.sub if k[0] == cr]:
                del st.sub[k]
        return ("mcall", recv, name, tuple(args), tuple(sorted(kwargs.items())))

    def call_opaque(self, recv, name, cands, args, kwargs, st, frame, node):
        rid = next(self._ids)
        ev = Event("call", recv=recv, name=name, args=args, kwargs=kwargs, callee=cands, result=("res", rid), inlined=False)
        self.emit(ev, node, st, frame)
        self.havoc(st, rid, method=name, cands=cands, recv=recv, frame=frame, args=list(args) + list((kwargs or {}).values()))
        return ("res", rid)

    def call_function(self, fi, selfv, host, args, kwargs, st, frame, node, recv=None, via_super=False, closure=None):
        can_inline = ((via_super or fi.cls is None or len(frame.chain) <= self.inline_depth) and fi.qual not in frame.chain and fi.qual not in self.no_inline and fi.name not in self.no_inline)
        ev = Event("call", recv=recv, name=fi.name, args=args, kwargs=kwargs, callee=[fi], inlined=can_inline, extra="super" if (via_super and closure is None) else None)
        self.emit(ev, node, st, frame)
        if not can_inline:
            rid = next(self._ids)
            ev.result = ("res", rid)
            if fi.cls is not None:
                # the callee is known: clobber exactly what its effect summary says, seen from the receiver
                r_ = recv if recv is not None else (selfv if selfv is not None else SELF)
                self.havoc(st, rid, method=fi.name, cands=[fi], recv=r_, frame=frame, args=list(args) + list((kwargs or {}).values()))
            return ("res", rid)
        # bind parameters
        params = list(fi.params)
        binds = {}
        pos = list(args)
        if fi.cls is not None and params and params[0] == "self":
            binds["self"] = selfv if selfv is not None else SELF
            params = params[1:]
        # expand starred args conservatively
        for p in params:
            if pos:
                a = pos.pop(0)
                if a[0] == "starred":
                    binds[p] = ("opaque", "starred")
                else:
                    binds[p] = a
            elif p in kwargs:
                binds[p] = kwargs[p]
            elif p in fi.defaults:
                binds[p] = self.ev(fi.defaults[p], State(), Frame(fi, host, chain=frame.chain), quiet=True)
            else:
                binds[p] = ("param", p)
        for p in fi.kwonly:
            if p in kwargs:
                binds[p] = kwargs[p]
            elif p in fi.defaults:
                binds[p] = self.ev(fi.defaults[p], State(), Frame(fi, host, chain=frame.chain), quiet=True)
        if fi.vararg:
            binds[fi.vararg] = ("tuple",) + tuple(pos)
        if fi.kwarg:
            extra = dict((k, v) for k, v in kwargs.items() if k not in fi.params)
            if "**" in extra and len(extra) == 1:
                binds[fi.kwarg] = extra["**"]
            else:
                binds[fi.kwarg] = ("kwargs", tuple(sorted((("str", k), v) for k, v in extra.items())))
        inner = State()
        if closure is not None:
            inner.locals = dict(closure)
            inner.locals.update(binds)
        else:
            inner.locals = binds
        inner.heap = st.heap
        inner.sub = st.sub
        inner.guard = list(st.guard)
        inner.graw = list(st.graw)
        inner.epoch = dict(st.epoch)
        inner.epoch_all = st.epoch_all
        sub = Frame(fi, host if fi.cls is not None else None, chain=frame.chain + (fi.qual,))
        sub.loops = list(frame.loops)
        sub.while_loops = frame.while_loops
        exits = self.run_function(sub, inner)
        if not exits:
            st.alive = "raise"
            return ("opaque", "noreturn")
        # merge exits (structured order) into the caller's state
        base = len(st.guard)
        last_state, last_val = exits[-1]
        heap, subm, val = dict(last_state.heap), dict(last_state.sub), last_val
        tails = [tuple(es.guard[base:]) for es, _ in exits]
        # being in the else-branch of the earlier exits establishes the negation of their conditions:
        # drop from each later exit's condition what is already known that way
        conds = []
        known = list(st.guard)
        base_raw = len(st.graw)
        for es, _ in exits[:-1]:
            tail = [l for l in es.guard[base:] if not (isinstance(l[0], tuple) and l[0] and l[0][0] == "impl")]
            ksat = sym.sat(known)
            simp = [l for l in tail if not sym.lit_holds(ksat, l[0], l[1])]
            # prefer the raw branch conditions (phi nodes inside them stay resolvable) when they account for the whole tail
            raws = list(es.graw[base_raw:])
            raw_lits = []
            for c_, p_ in raws:
                raw_lits.extend(literals(c_, p_))
            if raws and set(raw_lits) == set(tail):
                rsimp = []
                for c_, p_ in raws:
                    try:
                        if all(sym.lit_holds(ksat, a_, q_) for a_, q_ in literals(c_, p_)):
                            continue
                    except Exception:
                        pass
                    rsimp.append((c_, p_))
                cond = _conj(rsimp)
            else:
                cond = _conj(simp)
            conds.append(cond)
            known.extend(literals(cond, False))
        for (es, ev_), cond in reversed(list(zip(exits[:-1], conds))):
            val = _ite(cond, ev_, val)
            for k in set(heap) | set(es.heap):
                a, b = es.heap.get(k), heap.get(k)
                if a is b:
                    continue
                if a is None:
                    a = ("fld", k[0], k[1], es.version(k[1], _GROUPS.get(k[0], "O")))
                if b is None:
                    b = ("fld", k[0], k[1], last_state.version(k[1], _GROUPS.get(k[0], "O")))
                heap[k] = _ite(cond, a, b)
            for k in set(subm) | set(es.sub):
                a, b = es.sub.get(k), subm.get(k)
                if a is b:
                    continue
                if a is None or b is None:
                    subm[k] = ("opaque", "maybe-set")
                else:
                    subm[k] = _ite(cond, a, b)
        st.heap = heap
        st.sub = subm
        ep_state = last_state
        for es, _ in exits[:-1]:
            tmp = State()
            tmp.epoch, tmp.epoch_all = _merge_epochs(ep_state, es)
            ep_state = tmp
        st.epoch, st.epoch_all = dict(ep_state.epoch), ep_state.epoch_all
        common = [l for l in tails[0] if all(l in t for t in tails[1:])]
        st.guard = list(st.guard) + common
        if len(exits) > 1:
            # one of the callee's exits was taken: keep what each established as a disjunction
            rest = [[l for l in t if l not in common] for t in tails]
            if all(rest):
                st.guard.append((("impl", canon(("or",) + tuple(_conj(r) for r in rest))), True))
                # the same fact over the raw branch conditions, so that phi nodes inside them can be resolved later
                raw_alts = []
                for es, _ in exits:
                    rs = list(es.graw[base_raw:])
                    rl = []
                    for c_, p_ in rs:
                        rl.extend(literals(c_, p_))
                    plain_tail = [l for l in es.guard[base:] if not (isinstance(l[0], tuple) and l[0] and l[0][0] == "impl")]
                    if not rs or set(rl) != set(plain_tail):
                        raw_alts = None
                        break
                    raw_alts.append(_conj(rs))
                if raw_alts:
                    st.graw.append((("or",) + tuple(raw_alts), True))
        if len(exits) == 1:
            st.graw = list(last_state.graw)
        ev.result = val
        return val

    def havoc(self, st, rid, method=None, everything=False, cands=None, recv=None, frame=None, args=None):
        """Forget what a call may have written.  With callees and receiver known the clobber set is the
        callees' role-relative effect summary translated through the receiver's relation to the anchor
        object; otherwise by field name on every object; `everything` forgets the whole heap."""
        if everything:
            st.heap.clear()
            st.sub.clear()
            st.epoch.clear()
            st.epoch_all = rid
            return
        groups = None
        if cands and frame is not None and recv is not None:
            rel = self.relation(recv, frame)
            eff = set()
            for c in cands:
                eff |= self.effects().get(c, set())
            if any(r == "ANY" for r, _ in eff):
                return self.havoc(st, rid, everything=True)
            if rel is not None:
                eff = translate_effects(eff, rel)
                groups = set()
                for role, f in eff:
                    groups.add(({"SELF": "S", "PARENT": "S", "ROOT": "S", "CHILD": "C", "OTHER": "O"}[role], f))
                    if role == "OTHER":
                        groups.add(("C", f))
                        if rel == "OTHER" and args and any(self.ntype(a_, frame) is not None for a_ in args):
                            # a callee on an unrelated receiver, handed a node, writing to "other" objects: that may be any node we know
                            groups.add(("S", f))
            else:
                names = set(f for _, f in eff)
                groups = set((g, f) for g in "SCO" for f in names)
        else:
            names = self.may_write(method)
            groups = set((g, f) for g in "SCO" for f in names)
        for k in list(st.heap):
            if (_GROUPS.get(k[0], "O"), k[1]) in groups:
                del st.heap[k]
        for g in groups:
            st.epoch[g] = rid

    def effects(self):
        if self._effects is None:
            self._effects = compute_effects(self.prog)
        return self._effects

    def anchor(self, frame):
        if frame.host and self.prog.is_subclass(frame.host, "Node"):
            return SELF
        if "target" in frame.fn.params:
            return ("param", "target")
        return None

    def relation(self, obj, frame):
        """SELF / PARENT / ROOT / CHILD / OTHER of a node value relative to the frame's anchor object."""
        a = self.anchor(frame)
        if a is None:
            # Backtest-like hosts: the strategy attribute is the anchor
            if obj[0] == "fld" and obj[1] == SELF and obj[2] == "strategy":
                return "SELF"
            return None
        if obj == a:
            return "SELF"
        if obj[0] == "fld" and obj[1] == a:
            if obj[2] == "parent":
                return "PARENT"
            if obj[2] == "root":
                return "ROOT"
            return "OTHER"
        if obj[0] == "sub" and (obj[1] == a or (obj[1][0] == "fld" and obj[1][1] == a and obj[1][2] in ("children", "_lazy_children"))):
            return "CHILD"
        if obj[0] == "elem":
            it = obj[1]
            while it[0] == "call" and it[2]:
                it = it[2][0]
            if it[0] == "mcall":
                it = it[1]
            if it[0] in ("fld", "prop") and it[1] == a:
                return "CHILD"
            return "OTHER"
        if obj[0] == "item" and obj[1][0] == "elem":
            return self.relation(obj[1], frame)
        if obj[0] == "ite":
            r1, r2 = self.relation(obj[2], frame), self.relation(obj[3], frame)
            return r1 if r1 == r2 else "OTHER"
        return "OTHER"

    def group(self, obj, frame):
        co = canon(obj)
        g = _GROUPS.get(co)
        if g is None:
            rel = self.relation(obj, frame)
            g = {"SELF": "S", "PARENT": "S", "ROOT": "S", "CHILD": "C"}.get(rel, "O")
            if rel is None:
                g = "S" if obj == SELF else "O"
            _GROUPS[co] = g
        return g

    def may_write(self, mname):
        if self._may_write is None:
            self._may_write = compute_may_write(self.prog)
        return self._may_write.get(mname, set())

    # ------------------------------------------------------------------------------------------
    def emit(self, ev, node, st, frame):
        ev.seq = next(self.seq)
        ev.heap = dict(st.heap)
        ev.epoch = (dict(st.epoch), st.epoch_all)
        ev.guard = tuple(st.guard)
        ev.graw = tuple(st.graw)
        ev.loops = tuple(frame.loops)
        ev.node = node
        ev.fn = frame.fn
        ev.chain = frame.chain
        self.summary.events.append(ev)
        if ev.kind == "raise":
            self.summary.raises.append(ev)
        return ev


def SELF_OF(frame):
    return SELF


class Frame(object):
    def __init__(self, fn, host, chain):
        self.fn = fn
        self.host = host
        self.chain = chain
        self.loops = []
        self.exits = []
        self.while_loops = []


class Loop(object):
    def __init__(self, node, it, elem):
        self.node = node
        self.iter = it
        self.elem = elem
        self.pending = []
        self.has_break = False
        self.filter = []
        self.guard0 = []
        self.value = None
        self.is_while = False
        self.test = None
        self.appends = {}
        self.dict_stores = {}

    def __repr__(self):
        return "<Loop %s>" % sym.fmt(self.iter)


_key_objs = {}
_GROUPS = {}  # canonical object -> alias group ('S' self/parent/root, 'C' children, 'O' other)


def _fld_from_key(k):
    return ("fld", _keyobj(k), k[1], 0)


def _keyobj(k):
    return k[0]


def _obj_of_key(k, a, b):
    return k[0]


def _conj(lits):
    parts = []
    for a, pol in lits:
        if isinstance(a, tuple) and a and a[0] == "impl":
            a = a[1]
        parts.append(a if pol else ("not", a))
    if not parts:
        return ("bool", True)
    if len(parts) == 1:
        return parts[0]
    return ("and",) + tuple(parts)


def _percent_pieces(template):
    """['a', 'b', 'c'] for 'a%sb%sc' (only plain %s / %d conversions; '%%' is a literal percent), else None"""
    import re

    if re.search(r"%(?![sd%])", template):
        return None
    parts = re.split(r"%[sd]", template.replace("%%", "\0"))
    return [p_.replace("\0", "%") for p_ in parts]


def _empty_container_literal(n):
    if isinstance(n, (ast.List, ast.Tuple, ast.Set)):
        return not n.elts
    if isinstance(n, ast.Dict):
        return not n.keys
    return isinstance(n, ast.Call) and isinstance(n.func, ast.Name) and n.func.id in ("list", "dict", "tuple", "set") and not n.args and not n.keywords


def _is_int_literal(n):
    return isinstance(n, ast.Constant) and isinstance(n.value, int) and not isinstance(n.value, bool)


def _mark_int_fill(n, v):
    """int(c) for an integer literal c used as the fill value of a table (directly or as the values of a dict literal)"""
    if _is_int_literal(n):
        return ("call", "int", (v,), ())
    if isinstance(n, ast.Dict) and isinstance(v, tuple) and v and v[0] == "dict" and len(v) - 1 == len(n.values):
        items = []
        for vn, item in zip(n.values, v[1:]):
            if _is_int_literal(vn) and isinstance(item, tuple) and len(item) == 3 and item[0] == "tuple":
                item = ("tuple", item[1], ("call", "int", (item[2],), ()))
            items.append(item)
        return ("dict",) + tuple(items)
    return v


def _list_value(v):
    """a list created in this function: a literal or list(<iterable>)"""
    return isinstance(v, tuple) and bool(v) and (v[0] == "list" or (v[0] == "call" and v[1] == "list" and len(v) == 4 and not v[3]))


def _simple_pure_expr(n):
    """an expression whose evaluation has no effect and that may be evaluated twice: names, attribute chains, constants, empty containers"""
    if isinstance(n, (ast.Constant, ast.Name)):
        return True
    if isinstance(n, ast.Attribute):
        return _simple_pure_expr(n.value)
    if isinstance(n, ast.Call) and isinstance(n.func, ast.Name) and n.func.id in ("set", "dict", "list") and not n.args and not n.keywords:
        return True
    if isinstance(n, (ast.List, ast.Dict, ast.Set, ast.Tuple)):
        return not (n.elts if not isinstance(n, ast.Dict) else n.keys)
    return False


def _ite(cond, a, b):
    if a is b:
        return a
    try:
        if canon(a) == canon(b):
            return a
    except Exception:
        pass
    return ("ite", cond, a, b)


def _merge_epochs(s1, s2):
    ep = {}
    for n in set(s1.epoch) | set(s2.epoch):
        a, b = s1.epoch.get(n, s1.epoch_all), s2.epoch.get(n, s2.epoch_all)
        ep[n] = a if a == b else ("phi",) + tuple(sorted([a, b], key=repr))
    ea = s1.epoch_all if s1.epoch_all == s2.epoch_all else ("phi",) + tuple(sorted([s1.epoch_all, s2.epoch_all], key=repr))
    return ep, ea


def _merge_states(cond, s1, s2):
    out = State()
    out.epoch, out.epoch_all = _merge_epochs(s1, s2)
    for name in ("locals", "heap", "sub"):
        d1, d2 = getattr(s1, name), getattr(s2, name)
        d = {}
        for k in set(d1) | set(d2):
            a, b = d1.get(k), d2.get(k)
            if a is b:
                d[k] = a
                continue
            if a is None or b is None:
                if name == "heap":
                    a = a if a is not None else ("fld", k[0], k[1], s1.version(k[1], _GROUPS.get(k[0], "O")))
                    b = b if b is not None else ("fld", k[0], k[1], s2.version(k[1], _GROUPS.get(k[0], "O")))
                elif name == "sub":
                    a = a if a is not None else ("sub", k[0], k[1])
                    b = b if b is not None else ("sub", k[0], k[1])
                else:
                    a = a if a is not None else ("undef",)
                    b = b if b is not None else ("undef",)
            d[k] = _ite(cond, a, b)
        setattr(out, name, d)
    return out


def _merge_guarded_terms(terms):
    """[(guard, term)] -> merged list: equal terms whose guards differ in the polarity of exactly one
    literal are joined (g and x) or (g and not x) == g; repeated until stable."""
    items = [(frozenset((canon(a), p) for a, p in g), d) for g, d in terms]
    changed = True
    while changed:
        changed = False
        for i in range(len(items)):
            for j in range(i + 1, len(items)):
                gi, di = items[i]
                gj, dj = items[j]
                if di != dj:
                    continue
                common = gi & gj
                ri, rj = gi - common, gj - common
                cl = sorted(common, key=repr)
                if ri and rj and canon(("and", _conj(cl), ("not", _conj(sorted(ri, key=repr))))) == canon(("and", _conj(cl), _conj(sorted(rj, key=repr)))):
                    items[i] = (common, di)
                    del items[j]
                    changed = True
                    break
                if gi == gj:
                    del items[j]
                    items[i] = (gi, sym.to_rat(di).add(sym.to_rat(dj)).canon())
                    changed = True
                    break
            if changed:
                break
    return [(tuple(sorted(g, key=repr)), d) for g, d in items]


def _is_fresh(v):
    """A value created in the current function by a copying pandas operation (not an alias of caller data or heap state)."""
    while isinstance(v, tuple) and v:
        if v[0] == "ite" and len(v) == 4:
            return _is_fresh(v[2]) and _is_fresh(v[3])
        if v[0] == "mcall" and v[2] in ("dropna", "copy", "sort_values", "sort_index", "fillna", "reindex", "count", "astype", "diff", "unstack", "stack"):
            return True
        if v[0] == "call" and v[1] in ("pd.DataFrame", "pd.Series", "list", "dict", "sorted"):
            return True
        if v[0] == "sub" and v[1][0] == "attr" and v[1][2] == "loc":
            return True  # label selection returns a new object
        if v[0] == "sub":
            v = v[1]
            continue
        return False
    return False


def _contradictory(guard):
    s = set()
    for a, p in guard:
        if (a, not p) in s:
            return True
        if a == ("bool", False) and p:
            return True
        s.add((a, p))
    return False


def _component(v, i, n):
    t = v[0]
    if t in ("tuple", "list") and (len(v) - 1 == n or (n is None and i < len(v) - 1)):
        return v[1 + i]
    if t == "ite":
        return _ite(v[1], _component(v[2], i, n), _component(v[3], i, n))
    return ("item", v, i)


def _binop(op):
    return {
        ast.Add: "+", ast.Sub: "-", ast.Mult: "*", ast.Div: "/", ast.Pow: "**", ast.FloorDiv: "//", ast.Mod: "%", ast.BitOr: "|", ast.BitAnd: "&",
        ast.BitXor: "^", ast.MatMult: "@", ast.LShift: "<<", ast.RShift: ">>",
    }[type(op)]


def _cmpop(op):
    return {
        ast.Eq: "==", ast.NotEq: "!=", ast.Lt: "<", ast.LtE: "<=", ast.Gt: ">", ast.GtE: ">=", ast.Is: "is", ast.IsNot: "isnot", ast.In: "in",
        ast.NotIn: "notin",
    }[type(op)]


def _guarded_noop_store(s):
    if s.orelse or len(s.body) != 1 or not isinstance(s.body[0], ast.Assign):
        return False
    a = s.body[0]
    t = s.test
    if len(a.targets) != 1 or not isinstance(a.targets[0], ast.Subscript) or not _simple_pure_expr(a.value):
        return False
    if not (isinstance(t, ast.Compare) and len(t.ops) == 1 and isinstance(t.ops[0], ast.NotEq)):
        return False
    tgt = a.targets[0]
    base = tgt.value
    if isinstance(base, ast.Call) and isinstance(base.func, ast.Name) and base.func.id.endswith("writable") and len(base.args) == 1 and not base.keywords:
        base = ast.Attribute(value=base.args[0], attr="values", ctx=ast.Load())  # the writable view of a history is its values array
    if not (_simple_pure_expr(base) and _simple_pure_expr(tgt.slice)):
        return False
    cell = ast.dump(ast.Subscript(value=base, slice=tgt.slice, ctx=ast.Load()))
    v = ast.dump(a.value)
    L, R = ast.dump(t.left), ast.dump(t.comparators[0])
    return (L == cell and R == v) or (R == cell and L == v)


def _assigned_in(stmts):
    """Names and (object-expr, field) slots assigned anywhere in a statement list."""
    names, fields = [], []
    for s in stmts:
        for n in ast.walk(s):
            targets = []
            if isinstance(n, ast.Assign):
                targets = n.targets
            elif isinstance(n, (ast.AugAssign, ast.AnnAssign)):
                targets = [n.target]
            elif isinstance(n, (ast.For,)):
                targets = [n.target]
            elif isinstance(n, ast.NamedExpr):
                targets = [n.target]
            elif isinstance(n, ast.With):
                targets = [i.optional_vars for i in n.items if i.optional_vars is not None]
            for t in targets:
                for el in _flatten_targets(t):
                    if isinstance(el, ast.Name):
                        if el.id not in names:
                            names.append(el.id)
                    elif isinstance(el, ast.Attribute):
                        k = (ast.dump(el.value), el.attr)
                        if k not in [(ast.dump(a), b) for a, b in fields]:
                            fields.append((el.value, el.attr))
    return names, fields


def _flatten_targets(t):
    if isinstance(t, (ast.Tuple, ast.List)):
        for e in t.elts:
            for x in _flatten_targets(e):
                yield x
    elif isinstance(t, ast.Starred):
        for x in _flatten_targets(t.value):
            yield x
    else:
        yield t


# ----------------------------------------------------------------------------------------------
# accessor table (E1): what does a @property hand out?

_backing_memo = {}


class _Subst(ast.NodeTransformer):
    def __init__(self, mapping):
        self.mapping = mapping

    def visit_Name(self, node):
        if isinstance(node.ctx, ast.Load) and node.id in self.mapping:
            return copy.deepcopy(self.mapping[node.id])
        return node


def _single_assignment_aliases(fnode):
    """{local: expression} for locals bound exactly once by a plain `name = expr` (and never otherwise rebound)."""
    counts, values = {}, {}
    for n in ast.walk(fnode):
        if isinstance(n, ast.Assign) and len(n.targets) == 1 and isinstance(n.targets[0], ast.Name):
            counts[n.targets[0].id] = counts.get(n.targets[0].id, 0) + 1
            values[n.targets[0].id] = n.value
        elif isinstance(n, (ast.AugAssign, ast.AnnAssign)) and isinstance(n.target, ast.Name):
            counts[n.target.id] = counts.get(n.target.id, 0) + 2
        elif isinstance(n, (ast.For, ast.comprehension)):
            for el in ast.walk(n.target):
                if isinstance(el, ast.Name):
                    counts[el.id] = counts.get(el.id, 0) + 2
        elif isinstance(n, ast.Assign):
            for t in n.targets:
                for el in ast.walk(t):
                    if isinstance(el, ast.Name) and isinstance(el.ctx, ast.Store):
                        counts[el.id] = counts.get(el.id, 0) + 2
    return dict((k, v) for k, v in values.items() if counts.get(k) == 1)


def _resolved_returns(fi, depth=0):
    """The return expressions of a function with single-assignment locals substituted and calls to simple
    private helpers of the same object (`self._h(args)`: straight-line body ending in one return) expanded."""
    aliases = _single_assignment_aliases(fi.node)
    out = []
    for r in [n for n in ast.walk(fi.node) if isinstance(n, ast.Return)]:
        v = r.value
        for _ in range(3):
            if v is None:
                break
            v = _Subst(aliases).visit(copy.deepcopy(v))
        prog = getattr(fi, "prog", None)
        if (v is not None and depth < 2 and prog is not None and fi.cls and isinstance(v, ast.Call) and isinstance(v.func, ast.Attribute) and isinstance(v.func.value, ast.Name)
                and v.func.value.id == (fi.params[0] if fi.params else "self") and not v.keywords):
            callee = prog.resolve(fi.cls, v.func.attr)
            if callee is not None and not callee.is_property and len(callee.params) - 1 == len(v.args):
                body = [b for b in callee.node.body if not (isinstance(b, ast.Expr) and isinstance(b.value, ast.Constant))]
                if body and isinstance(body[-1], ast.Return) and all(isinstance(b, ast.Assign) for b in body[:-1]):
                    inner = _resolved_returns(callee, depth + 1)
                    if len(inner) == 1 and inner[0] is not None:
                        mapping = dict(zip(callee.params[1:], v.args))
                        mapping[callee.params[0]] = ast.Name(id=fi.params[0] if fi.params else "self", ctx=ast.Load())
                        v = _Subst(mapping).visit(copy.deepcopy(inner[0]))
        out.append(v)
    return out


def property_backing(fi):
    """('field', F) if every return is `self.F`; ('series', S) if every return is `self.S.loc[: self.now]`;
    ('abstract',) if it only raises; else ('complex',).  Judged on the returns with local aliases and simple
    private helpers expanded, so `return self._up_to_now(self._prices)` is still the windowed series."""
    hit = getattr(fi.node, "_btlint_backing", None)
    if hit is not None:
        return hit
    rets = _resolved_returns(fi)
    res = ("complex",)
    if not rets:
        res = ("abstract",)
    else:
        kinds = set()
        for v in rets:
            if isinstance(v, ast.Attribute) and isinstance(v.value, ast.Name) and v.value.id == "self":
                kinds.add(("field", v.attr))
            elif (isinstance(v, ast.Subscript) and isinstance(v.value, ast.Attribute) and v.value.attr == "loc" and isinstance(v.value.value, ast.Attribute)
                  and isinstance(v.value.value.value, ast.Name) and v.value.value.value.id == "self" and isinstance(v.slice, ast.Slice) and v.slice.lower is None
                  and isinstance(v.slice.upper, ast.Attribute) and v.slice.upper.attr == "now"):
                kinds.add(("series", v.value.value.attr))
            else:
                kinds.add(("complex",))
        if len(kinds) == 1:
            res = kinds.pop()
    fi.node._btlint_backing = res
    return res


# ----------------------------------------------------------------------------------------------
# E6 - role-relative effect summaries

CHILD_ITER_MARKERS = ("_childrenv", "children", "members", "securities", "_lazy_children")


def _recv_role(expr, childvars):
    """Role of a receiver / store-target object expression relative to the function's `self`."""
    if isinstance(expr, ast.Name):
        if expr.id == "self":
            return "SELF"
        if expr.id in childvars:
            return "CHILD"
        return "OTHER"
    if isinstance(expr, ast.Attribute) and isinstance(expr.value, ast.Name) and expr.value.id == "self":
        if expr.attr == "parent":
            return "PARENT"
        if expr.attr == "root":
            return "ROOT"
        return "OTHER"
    if isinstance(expr, ast.Subscript):
        v = expr.value
        if isinstance(v, ast.Attribute) and v.attr in ("children", "_lazy_children") and isinstance(v.value, ast.Name) and v.value.id == "self":
            return "CHILD"
        if isinstance(v, ast.Name) and v.id == "self":
            return "CHILD"
    if isinstance(expr, ast.Call) and isinstance(expr.func, ast.Name) and expr.func.id == "super":
        return "SELF"
    return "OTHER"


def _child_vars(fnode):
    out = set()
    for n in ast.walk(fnode):
        its = []
        if isinstance(n, ast.For):
            its.append((n.target, n.iter))
        elif isinstance(n, ast.comprehension):
            its.append((n.target, n.iter))
        elif isinstance(n, ast.Assign) and len(n.targets) == 1:
            its.append((n.targets[0], n.value))
        for tgt, it in its:
            src = ast.dump(it)
            if any(("attr='%s'" % m) in src for m in CHILD_ITER_MARKERS) and "id='self'" in src:
                for el in _flatten_targets(tgt):
                    if isinstance(el, ast.Name):
                        out.add(el.id)
    return out


_TRANSLATE = {
    "SELF": {"SELF": ("SELF",), "PARENT": ("PARENT",), "ROOT": ("ROOT",), "CHILD": ("CHILD",), "OTHER": ("OTHER",)},
    "CHILD": {"SELF": ("CHILD",), "PARENT": ("SELF",), "ROOT": ("ROOT",), "CHILD": ("CHILD",), "OTHER": ("OTHER",)},
    "PARENT": {"SELF": ("PARENT",), "PARENT": ("OTHER",), "ROOT": ("ROOT",), "CHILD": ("SELF", "OTHER", "CHILD"), "OTHER": ("OTHER",)},
    "ROOT": {"SELF": ("ROOT",), "PARENT": ("ROOT",), "ROOT": ("ROOT",), "CHILD": ("SELF", "PARENT", "OTHER", "CHILD"), "OTHER": ("OTHER",)},
    "OTHER": {"SELF": ("OTHER",), "PARENT": ("OTHER",), "ROOT": ("ROOT", "OTHER"), "CHILD": ("OTHER",), "OTHER": ("OTHER",)},
}


def translate_effects(eff, rel):
    out = set()
    for role, f in eff:
        if role == "ANY":
            out.add((role, f))
            continue
        for r2 in _TRANSLATE[rel][role]:
            out.add((r2, f))
    return out


def compute_effects(prog):
    """{FuncInfo: set of (role, field)}: fields a call may assign, by the role of the written object
    relative to the callee's `self`; closed over the call graph (receivers typed by role, callees by
    class-hierarchy analysis)."""
    funcs = list(prog.all_functions())
    direct = {}
    calls = {}
    node_methods = {}
    for f in funcs:
        if f.cls and prog.is_subclass(f.cls, "Node"):
            node_methods.setdefault(f.name, []).append(f)
    for f in funcs:
        d = set()
        c = []
        cv = _child_vars(f.node)
        for n in ast.walk(f.node):
            if isinstance(n, (ast.Assign, ast.AugAssign, ast.AnnAssign)):
                ts = n.targets if isinstance(n, ast.Assign) else [n.target]
                for t in ts:
                    for el in _flatten_targets(t):
                        if isinstance(el, ast.Attribute):
                            d.add((_recv_role(el.value, cv), el.attr))
            elif isinstance(n, ast.Call):
                fn = n.func
                if isinstance(fn, ast.Attribute):
                    rel = _recv_role(fn.value, cv)
                    name = fn.attr
                    if rel == "SELF" and f.cls:
                        cands = []
                        r = prog.resolve(f.cls, name)
                        if r is not None:
                            cands.append(r)
                        for sc in prog.subclasses(f.cls):
                            m = prog.classes[sc].methods.get(name)
                            if m is not None and m not in cands:
                                cands.append(m)
                        if cands:
                            c.append((rel, cands))
                        elif name in ("stack",):
                            d.add(("ANY", "*"))
                    elif isinstance(fn.value, ast.Name) and fn.value.id in prog.classes:
                        r = prog.resolve(fn.value.id, name)
                        if r is not None:
                            c.append(("SELF", [r]))
                    elif name in node_methods and rel != "OTHER":
                        c.append((rel, node_methods[name]))
                    elif name in node_methods and rel == "OTHER":
                        # unknown receiver with a node method name: only if it looks like a node.
                        # The shadow ("paper") strategy is a deep copy: a disjoint object graph, its
                        # methods cannot write the live tree (C09.R1 checks that it is a deepcopy).
                        if isinstance(fn.value, ast.Name) and fn.value.id in NODE_PARAM_NAMES - {"paper"}:
                            c.append((rel, node_methods[name]))
                        elif isinstance(fn.value, ast.Attribute) and fn.value.attr in ("strategy", "root", "parent"):
                            c.append((rel, node_methods[name]))
                elif isinstance(fn, ast.Name):
                    mf = prog.functions.get((f.module, fn.id))
                    if mf is not None:
                        c.append(("SELF", [mf]))
                    elif fn.id in ("algo",):
                        d.add(("ANY", "*"))
        direct[f] = d
        calls[f] = c
    closed = {f: set(d) for f, d in direct.items()}
    changed = True
    while changed:
        changed = False
        for f in funcs:
            for rel, cands in calls[f]:
                for g in cands:
                    add = translate_effects(closed.get(g, ()), rel) - closed[f]
                    if add:
                        closed[f] |= add
                        changed = True
    return closed


def compute_may_write(prog):
    eff = compute_effects(prog)
    out = {}
    for f, e in eff.items():
        out.setdefault(f.name, set()).update(n for _, n in e)
    return out
