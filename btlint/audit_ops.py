"""Thorough tier (DESIGN section 8): the checker is tested both ways on variants of /repo's current sources.

* silence  - behaviour-preserving transforms of the whole tree (AST round trip without comments / docstrings,
             alpha-renaming of every local, `a != b` -> `not a == b`, commuted equality operands, changed message
             strings, inserted no-op statements, hoisted call arguments, ruff format at several line lengths):
             the property's check must stay silent (no violation, no analysis error) on every one of them;
* sensitivity - (a) the confirmed seeded changes of /verif/seeded that target this property must make it fire;
             (b) generated AST mutants (flip sign, drop factor, flip flag argument, delete raise, weaken comparison,
             drop slice bound, drop copy) inside the property's anchor functions: kill statistics are reported.

Nothing is executed: variants are source texts analysed in memory (ruff writes into a scratch dir under /tmp,
removed afterwards).  /repo is never written.
"""

import ast
import copy
import json
import os
import random
import shutil
import subprocess
import tempfile
from concurrent.futures import ProcessPoolExecutor

from . import registry
from .report import Check, load_known
from .source import MODULE_FILES, AnalysisError, Program, load_sources

VERIF = os.path.dirname(os.path.dirname(os.path.abspath(__file__)))
PY_FILES = ["bt/core.py", "bt/algos.py", "bt/backtest.py"]


# ---------------------------------------------------------------------------------------------
# benign transforms


class StripDocstrings(ast.NodeTransformer):
    def _strip(self, node):
        self.generic_visit(node)
        if node.body and isinstance(node.body[0], ast.Expr) and isinstance(node.body[0].value, ast.Constant) and isinstance(node.body[0].value.value, str):
            node.body = node.body[1:] or [ast.Pass()]
        return node

    visit_FunctionDef = _strip
    visit_ClassDef = _strip
    visit_Module = _strip


class RenameLocals(ast.NodeTransformer):
    """alpha-rename every local variable of every function (parameters, globals and attributes untouched)."""

    def visit_FunctionDef(self, node):
        params = set(a.arg for a in node.args.posonlyargs + node.args.args + node.args.kwonlyargs)
        if node.args.vararg:
            params.add(node.args.vararg.arg)
        if node.args.kwarg:
            params.add(node.args.kwarg.arg)
        locals_ = set()
        declared = set()
        for n in _walk_no_nested(node):
            if isinstance(n, (ast.Global, ast.Nonlocal)):
                declared.update(n.names)
            if isinstance(n, ast.Name) and isinstance(n.ctx, (ast.Store, ast.Del)):
                locals_.add(n.id)
            if isinstance(n, ast.ExceptHandler) and n.name:
                locals_.add(n.name)
            if isinstance(n, (ast.Import, ast.ImportFrom)):
                for a in n.names:
                    declared.add((a.asname or a.name).split(".")[0])
        locals_ -= params | declared
        mapping = {name: "v%d_%s" % (i, name[:3].strip("_") or "x") for i, name in enumerate(sorted(locals_))}
        for n in _walk_no_nested(node):
            if isinstance(n, ast.Name) and n.id in mapping:
                n.id = mapping[n.id]
            if isinstance(n, ast.ExceptHandler) and n.name in mapping:
                n.name = mapping[n.name]
        # nested functions: handled by generic_visit
        for child in ast.iter_child_nodes(node):
            if isinstance(child, (ast.FunctionDef, ast.ClassDef)):
                self.visit(child)
        for sub in ast.walk(node):
            if sub is not node and isinstance(sub, ast.FunctionDef):
                pass
        return node


def _walk_no_nested(fn):
    stack = list(ast.iter_child_nodes(fn))
    while stack:
        n = stack.pop()
        yield n
        if isinstance(n, (ast.FunctionDef, ast.AsyncFunctionDef, ast.Lambda, ast.ClassDef)):
            continue
        stack.extend(ast.iter_child_nodes(n))


class NotEqToNotEq(ast.NodeTransformer):
    """a != b -> not a == b ; a is not b -> not a is b ; a not in b -> not a in b"""

    def visit_Compare(self, node):
        self.generic_visit(node)
        if len(node.ops) == 1:
            op = node.ops[0]
            rep = {ast.NotEq: ast.Eq, ast.IsNot: ast.Is, ast.NotIn: ast.In}.get(type(op))
            if rep is not None:
                return ast.UnaryOp(op=ast.Not(), operand=ast.Compare(left=node.left, ops=[rep()], comparators=node.comparators))
        return node


class CommuteEq(ast.NodeTransformer):
    def visit_Compare(self, node):
        self.generic_visit(node)
        if len(node.ops) == 1 and isinstance(node.ops[0], (ast.Eq, ast.NotEq)) and not isinstance(node.comparators[0], ast.Constant):
            return ast.Compare(left=node.comparators[0], ops=node.ops, comparators=[node.left])
        return node


class ChangeMessages(ast.NodeTransformer):
    def visit_Raise(self, node):
        for n in ast.walk(node):
            if isinstance(n, ast.Constant) and isinstance(n.value, str) and "%" not in n.value and "{" not in n.value:
                n.value = "message changed: " + n.value[:20]
        return node


class InsertNoops(ast.NodeTransformer):
    def visit_FunctionDef(self, node):
        self.generic_visit(node)
        noop = ast.parse("_audit_noop = None").body[0]
        start = 1 if (node.body and isinstance(node.body[0], ast.Expr) and isinstance(node.body[0].value, ast.Constant)) else 0
        if not any(isinstance(d, ast.Name) and d.id == "property" for d in node.decorator_list):
            node.body.insert(start, noop)
        return node


class HoistCallArgs(ast.NodeTransformer):
    """x.f(a + b, k=c * d) as a statement -> t0 = a + b; t1 = c * d; x.f(t0, k=t1) (arguments pure arithmetic over names / attributes)."""

    def __init__(self):
        self.n = 0

    def _pure(self, e):
        for n in ast.walk(e):
            if isinstance(n, (ast.Call, ast.Subscript, ast.Lambda, ast.IfExp, ast.ListComp, ast.DictComp, ast.SetComp, ast.GeneratorExp, ast.Starred, ast.NamedExpr)):
                return False
        return isinstance(e, (ast.BinOp, ast.UnaryOp))

    def _hoist_block(self, stmts):
        out = []
        for s in stmts:
            self.generic_visit(s)
            if isinstance(s, ast.Expr) and isinstance(s.value, ast.Call):
                call = s.value
                pre = []
                ok = True
                for i, a in enumerate(call.args):
                    if self._pure(a) and all(not isinstance(x, ast.Call) for b in call.args[:i] for x in ast.walk(b)):
                        name = "audit_t%d" % self.n
                        self.n += 1
                        pre.append(ast.Assign(targets=[ast.Name(id=name, ctx=ast.Store())], value=a))
                        call.args[i] = ast.Name(id=name, ctx=ast.Load())
                out.extend(pre)
            out.append(s)
        return out

    def visit_FunctionDef(self, node):
        node.body = self._hoist_block(node.body)
        return node

    def visit_If(self, node):
        node.body = self._hoist_block(node.body)
        node.orelse = self._hoist_block(node.orelse)
        return node

    def visit_For(self, node):
        node.body = self._hoist_block(node.body)
        return node


class CommuteArith(ast.NodeTransformer):
    """a * b -> b * a (operands free of calls, so evaluation order is unobservable; `+` is left alone: it also concatenates lists)"""

    def visit_BinOp(self, node):
        self.generic_visit(node)
        if isinstance(node.op, (ast.Mult,)) and not any(isinstance(n, (ast.Call, ast.Constant)) and (isinstance(n, ast.Call) or isinstance(n.value, str)) for n in ast.walk(node)):
            return ast.BinOp(left=node.right, op=node.op, right=node.left)
        return node


class AugToAssign(ast.NodeTransformer):
    """x += y -> x = x + y for names and plain attributes (subscripts would re-evaluate their index: left alone)"""

    def visit_AugAssign(self, node):
        self.generic_visit(node)
        if isinstance(node.target, (ast.Name, ast.Attribute)) and not (isinstance(node.target, ast.Attribute) and not isinstance(node.target.value, ast.Name)):
            load = copy.deepcopy(node.target)
            load.ctx = ast.Load()
            return ast.Assign(targets=[node.target], value=ast.BinOp(left=load, op=node.op, right=node.value))
        return node


class SwapIfElse(ast.NodeTransformer):
    """if c: A else: B  ->  if not c: B else: A   (only plain if/else, no elif chains)"""

    def visit_If(self, node):
        self.generic_visit(node)
        if node.orelse and not (len(node.orelse) == 1 and isinstance(node.orelse[0], ast.If)):
            return ast.If(test=ast.UnaryOp(op=ast.Not(), operand=node.test), body=node.orelse, orelse=node.body)
        return node


class CompStmtToFor(ast.NodeTransformer):
    """[f(c) for c in xs if p] used as a statement -> for c in xs: if p: f(c)"""

    def visit_Expr(self, node):
        v = node.value
        if isinstance(v, ast.ListComp) and len(v.generators) == 1:
            g = v.generators[0]
            body = [ast.Expr(value=v.elt)]
            for cond in reversed(g.ifs):
                body = [ast.If(test=cond, body=body, orelse=[])]
            return ast.For(target=g.target, iter=g.iter, body=body, orelse=[])
        return node


def _terminates(stmts):
    return bool(stmts) and isinstance(stmts[-1], (ast.Return, ast.Raise, ast.Continue, ast.Break))


class DropElseAfterReturn(ast.NodeTransformer):
    """if c: ...; return X  else: B   ->   if c: ...; return X   followed by B (the else is redundant)"""

    def _block(self, stmts):
        out = []
        for st in stmts:
            if isinstance(st, ast.If) and st.orelse and _terminates(st.body) and not (len(st.orelse) == 1 and isinstance(st.orelse[0], ast.If)):
                out.append(ast.If(test=st.test, body=st.body, orelse=[]))
                out.extend(st.orelse)
            else:
                out.append(st)
        return out

    def generic_visit(self, node):
        super().generic_visit(node)
        for field in ("body", "orelse", "finalbody"):
            v = getattr(node, field, None)
            if isinstance(v, list) and v and isinstance(v[0], ast.stmt):
                setattr(node, field, self._block(v))
        return node


class GuardClause(ast.NodeTransformer):
    """a function that ends in `if c: body` (no else, no value returned anywhere) -> `if not c: return` + body"""

    def visit_FunctionDef(self, node):
        self.generic_visit(node)
        if any(isinstance(n, ast.Return) and n.value is not None for n in _walk_no_nested(node)):
            return node
        if any(isinstance(n, (ast.Yield, ast.YieldFrom)) for n in ast.walk(node)):
            return node
        last = node.body[-1] if node.body else None
        if isinstance(last, ast.If) and not last.orelse and len(node.body) > 1:
            node.body = node.body[:-1] + [ast.If(test=ast.UnaryOp(op=ast.Not(), operand=last.test), body=[ast.Return(value=None)], orelse=[])] + last.body
        return node


class TernaryToIf(ast.NodeTransformer):
    """x = a if c else b  ->  if c: x = a  else: x = b   (single plain-name target)"""

    def visit_Assign(self, node):
        if len(node.targets) == 1 and isinstance(node.targets[0], ast.Name) and isinstance(node.value, ast.IfExp):
            t = node.targets[0]
            return ast.If(test=node.value.test, body=[ast.Assign(targets=[copy.deepcopy(t)], value=node.value.body)],
                          orelse=[ast.Assign(targets=[copy.deepcopy(t)], value=node.value.orelse)])
        return node


class IfToTernary(ast.NodeTransformer):
    """if c: x = a  else: x = b  ->  x = a if c else b   (same single plain-name target on both sides)"""

    def visit_If(self, node):
        self.generic_visit(node)
        if len(node.body) == 1 and len(node.orelse) == 1 and all(isinstance(b, ast.Assign) and len(b.targets) == 1 and isinstance(b.targets[0], ast.Name) for b in (node.body[0], node.orelse[0])):
            a, b = node.body[0], node.orelse[0]
            if a.targets[0].id == b.targets[0].id:
                return ast.Assign(targets=[a.targets[0]], value=ast.IfExp(test=node.test, body=a.value, orelse=b.value))
        return node


class ReturnComparison(ast.NodeTransformer):
    """if <comparison>: return True  /  return False   ->   return <comparison>"""

    def _is_bool_expr(self, e):
        if isinstance(e, ast.Compare):
            return True
        if isinstance(e, ast.BoolOp):
            return all(self._is_bool_expr(v) for v in e.values)
        if isinstance(e, ast.UnaryOp) and isinstance(e.op, ast.Not):
            return True
        return False

    def _block(self, stmts):
        out = []
        i = 0
        while i < len(stmts):
            st = stmts[i]
            nxt = stmts[i + 1] if i + 1 < len(stmts) else None
            if (isinstance(st, ast.If) and not st.orelse and len(st.body) == 1 and isinstance(st.body[0], ast.Return) and isinstance(st.body[0].value, ast.Constant)
                    and st.body[0].value.value is True and isinstance(nxt, ast.Return) and isinstance(nxt.value, ast.Constant) and nxt.value.value is False and self._is_bool_expr(st.test)):
                out.append(ast.Return(value=st.test))
                i += 2
                continue
            out.append(st)
            i += 1
        return out

    def visit_FunctionDef(self, node):
        self.generic_visit(node)
        node.body = self._block(node.body)
        return node


class SuperNoArgs(ast.NodeTransformer):
    """super(Class, self) -> super()"""

    def visit_Call(self, node):
        self.generic_visit(node)
        if isinstance(node.func, ast.Name) and node.func.id == "super" and len(node.args) == 2:
            return ast.Call(func=node.func, args=[], keywords=[])
        return node


class AnnotateLocals(ast.NodeTransformer):
    """x = v -> x: object = v for the plain single-name assignments of every function"""

    def visit_FunctionDef(self, node):
        self.generic_visit(node)
        globals_ = set()
        for n in _walk_no_nested(node):
            if isinstance(n, (ast.Global, ast.Nonlocal)):
                globals_.update(n.names)

        class T(ast.NodeTransformer):
            def visit_FunctionDef(self, n):
                return n

            def visit_Assign(self, n):
                if len(n.targets) == 1 and isinstance(n.targets[0], ast.Name) and n.targets[0].id not in globals_:
                    return ast.AnnAssign(target=n.targets[0], annotation=ast.Name(id="object", ctx=ast.Load()), value=n.value, simple=1)
                return n

        node.body = [T().visit(b) for b in node.body]
        return node


class DeMorgan(ast.NodeTransformer):
    """test `A and B` of an if / while -> `not (not A or not B)`; `A or B` -> `not (not A and not B)`"""

    def _rewrite(self, t):
        if isinstance(t, ast.BoolOp) and len(t.values) >= 2:
            dual = ast.Or() if isinstance(t.op, ast.And) else ast.And()
            return ast.UnaryOp(op=ast.Not(), operand=ast.BoolOp(op=dual, values=[ast.UnaryOp(op=ast.Not(), operand=v) for v in t.values]))
        return t

    def visit_If(self, node):
        self.generic_visit(node)
        node.test = self._rewrite(node.test)
        return node

    def visit_While(self, node):
        self.generic_visit(node)
        node.test = self._rewrite(node.test)
        return node


class SwapPureAnd(ast.NodeTransformer):
    """a and b -> b and a when both operands only touch locals, constants and private fields (cannot raise, no side effect)"""

    def _pure(self, e):
        for n in ast.walk(e):
            if isinstance(n, (ast.Call, ast.Subscript, ast.BinOp, ast.Await, ast.Yield, ast.NamedExpr)):
                return False
            if isinstance(n, ast.Attribute) and not n.attr.startswith("_"):
                return False
            if isinstance(n, ast.Compare) and not all(isinstance(o, (ast.Is, ast.IsNot, ast.Eq, ast.NotEq)) for o in n.ops):
                return False
        return True

    def visit_BoolOp(self, node):
        self.generic_visit(node)
        if len(node.values) == 2 and all(self._pure(v) for v in node.values):
            return ast.BoolOp(op=node.op, values=[node.values[1], node.values[0]])
        return node


class ReorderMethods(ast.NodeTransformer):
    """the methods of every class in reverse order (class attributes and the docstring stay in front)"""

    def visit_ClassDef(self, node):
        self.generic_visit(node)
        funcs = [b for b in node.body if isinstance(b, ast.FunctionDef)]
        # a property and its setter must keep their relative order
        names = [f.name for f in funcs]
        if len(set(names)) != len(names):
            return node
        rest = [b for b in node.body if not isinstance(b, ast.FunctionDef)]
        node.body = rest + funcs[::-1]
        return node


def _apply(sources, transformer_factory):
    out = dict(sources)
    for f in PY_FILES:
        tree = ast.parse(sources[f])
        tree = transformer_factory().visit(tree)
        ast.fix_missing_locations(tree)
        out[f] = ast.unparse(tree)
        ast.parse(out[f])
    return out


def _ruff(sources, line_length):
    tmp = tempfile.mkdtemp(prefix="btlint_ruff_")
    try:
        for f in PY_FILES:
            p = os.path.join(tmp, f)
            os.makedirs(os.path.dirname(p), exist_ok=True)
            open(p, "w").write(sources[f])
        r = subprocess.run(["/venv/bin/ruff", "format", "--line-length", str(line_length), "--isolated", tmp], capture_output=True, text=True)
        if r.returncode != 0:
            return None
        out = dict(sources)
        for f in PY_FILES:
            out[f] = open(os.path.join(tmp, f)).read()
        return out
    finally:
        shutil.rmtree(tmp, ignore_errors=True)


def benign_variants(sources):
    v = []
    v.append(("ast-roundtrip (comments and layout dropped)", _apply(sources, lambda: ast.NodeTransformer())))
    v.append(("docstrings stripped", _apply(sources, StripDocstrings)))
    v.append(("locals alpha-renamed", _apply(sources, RenameLocals)))
    v.append(("a != b -> not a == b", _apply(sources, NotEqToNotEq)))
    v.append(("equality operands commuted", _apply(sources, CommuteEq)))
    v.append(("raise messages changed", _apply(sources, ChangeMessages)))
    v.append(("no-op statements inserted", _apply(sources, InsertNoops)))
    v.append(("call arguments hoisted into temporaries", _apply(sources, HoistCallArgs)))
    v.append(("commutative operands swapped", _apply(sources, CommuteArith)))
    v.append(("x += y -> x = x + y", _apply(sources, AugToAssign)))
    v.append(("if/else branches swapped under a negated test", _apply(sources, SwapIfElse)))
    v.append(("comprehension statements -> for loops", _apply(sources, CompStmtToFor)))
    v.append(("redundant else after return/raise dropped", _apply(sources, DropElseAfterReturn)))
    v.append(("trailing if turned into a guard clause", _apply(sources, GuardClause)))
    v.append(("conditional expressions -> if/else assignments", _apply(sources, TernaryToIf)))
    v.append(("if/else assignments -> conditional expressions", _apply(sources, IfToTernary)))
    v.append(("if cmp: return True / return False -> return cmp", _apply(sources, ReturnComparison)))
    v.append(("super(Class, self) -> super()", _apply(sources, SuperNoArgs)))
    v.append(("methods of each class reordered", _apply(sources, ReorderMethods)))
    v.append(("De Morgan on if / while tests", _apply(sources, DeMorgan)))
    v.append(("pure and/or operands swapped", _apply(sources, SwapPureAnd)))
    v.append(("plain local assignments annotated", _apply(sources, AnnotateLocals)))
    for ll in (80, 120):
        r = _ruff(sources, ll)
        if r is not None:
            v.append(("ruff format --line-length %d" % ll, r))
    # composition
    comp = _apply(_apply(_apply(sources, RenameLocals), NotEqToNotEq), InsertNoops)
    v.append(("renamed + not== + no-ops", comp))
    return v


# ---------------------------------------------------------------------------------------------
# generated mutants

ANCHORS = {
    "C01": [("bt/core.py", "SecurityBase", "update"), ("bt/core.py", "StrategyBase", "update"), ("bt/core.py", "StrategyBase", "adjust"), ("bt/core.py", "SecurityBase", "transact")],
    "C02": [("bt/core.py", "SecurityBase", "transact"), ("bt/core.py", "SecurityBase", "outlay"), ("bt/core.py", "StrategyBase", "allocate"), ("bt/core.py", "StrategyBase", "update")],
    "C03": [("bt/core.py", "StrategyBase", "update"), ("bt/core.py", "StrategyBase", "adjust"), ("bt/core.py", "StrategyBase", "allocate"), ("bt/backtest.py", "Backtest", "run")],
    "C04": [("bt/core.py", "StrategyBase", "universe"), ("bt/algos.py", "StatTotalReturn", "__call__"), ("bt/algos.py", "SetStat", "__call__"), ("bt/algos.py", "WeighInvVol", "__call__"),
            ("bt/algos.py", "ReplayTransactions", "__call__"), ("bt/core.py", "SecurityBase", "update")],
    "C05": [("bt/core.py", "SecurityBase", "allocate"), ("bt/core.py", "SecurityBase", "outlay")],
    "C06": [("bt/algos.py", "Rebalance", "__call__"), ("bt/core.py", "StrategyBase", "rebalance"), ("bt/core.py", "StrategyBase", "close"), ("bt/core.py", "StrategyBase", "flatten"),
            ("bt/algos.py", "RebalanceOverTime", "__call__")],
    "C07": [("bt/core.py", "SecurityBase", "transact"), ("bt/core.py", "SecurityBase", "outlay"), ("bt/core.py", "StrategyBase", "adjust"), ("bt/core.py", "StrategyBase", "set_commissions")],
    "C08": [("bt/core.py", "SecurityBase", "update"), ("bt/core.py", "StrategyBase", "update"), ("bt/core.py", "Node", "value"), ("bt/core.py", "StrategyBase", "prices"),
            ("bt/core.py", "SecurityBase", "positions")],
    "C09": [("bt/core.py", "StrategyBase", "setup"), ("bt/core.py", "StrategyBase", "update"), ("bt/backtest.py", "Backtest", "run")],
    "C10": [("bt/core.py", "SecurityBase", "allocate"), ("bt/core.py", "SecurityBase", "update"), ("bt/core.py", "CouponPayingSecurity", "update"), ("bt/core.py", "StrategyBase", "setup"),
            ("bt/backtest.py", "Backtest", "__init__")],
    "C11": [("bt/backtest.py", "Backtest", "__init__"), ("bt/backtest.py", "Backtest", "_process_data"), ("bt/core.py", "StrategyBase", "setup"), ("bt/core.py", "Node", "_add_children")],
    "C12": [("bt/algos.py", "RunPeriod", "__call__"), ("bt/algos.py", "RunMonthly", "compare_dates"), ("bt/algos.py", "RunEveryNPeriods", "__call__"), ("bt/algos.py", "RunAfterDays", "__call__")],
    "C13": [("bt/core.py", "AlgoStack", "__call__"), ("bt/core.py", "Strategy", "run"), ("bt/algos.py", "Or", "__call__"), ("bt/algos.py", "Require", "__call__"),
            ("bt/algos.py", "RunIfOutOfBounds", "__call__")],
    "C14": [("bt/algos.py", "SelectAll", "__call__"), ("bt/algos.py", "SelectThese", "__call__"), ("bt/algos.py", "SelectHasData", "__call__"), ("bt/algos.py", "SelectN", "__call__"),
            ("bt/algos.py", "SelectWhere", "__call__"), ("bt/algos.py", "StatTotalReturn", "__call__")],
    "C15": [("bt/algos.py", "WeighEqually", "__call__"), ("bt/algos.py", "LimitDeltas", "__call__"), ("bt/algos.py", "TargetVol", "__call__"), ("bt/algos.py", "PTE_Rebalance", "__call__"),
            ("bt/algos.py", "WeighERC", "__call__")],
    "C16": [("bt/core.py", "StrategyBase", "update"), ("bt/core.py", "StrategyBase", "flatten"), ("bt/backtest.py", "Backtest", "run")],
    "C17": [("bt/core.py", "FixedIncomeSecurity", "update"), ("bt/core.py", "CouponPayingSecurity", "update"), ("bt/core.py", "HedgeSecurity", "update"), ("bt/core.py", "StrategyBase", "rebalance"),
            ("bt/backtest.py", "RenormalizedFixedIncomeResult", "_price")],
    "C18": [("bt/backtest.py", "Backtest", "weights"), ("bt/backtest.py", "Backtest", "security_weights"), ("bt/backtest.py", "Backtest", "turnover"), ("bt/core.py", "StrategyBase", "get_transactions"),
            ("bt/core.py", "StrategyBase", "positions")],
    "C19": [("bt/core.py", "Node", "_add_children"), ("bt/core.py", "Node", "use_integer_positions"), ("bt/core.py", "StrategyBase", "_create_child_if_needed"), ("bt/core.py", "StrategyBase", "setup")],
    "C20": [("bt/algos.py", "UpdateRisk", "_set_risk_recursive"), ("bt/algos.py", "HedgeRisks", "__call__"), ("bt/algos.py", "ClosePositionsAfterDates", "__call__"),
            ("bt/algos.py", "RollPositionsAfterDates", "__call__")],
}


def _find_func(tree, cls, name):
    for st in tree.body:
        if isinstance(st, ast.ClassDef) and st.name == cls:
            for m in st.body:
                if isinstance(m, ast.FunctionDef) and m.name == name and not any(isinstance(d, ast.Attribute) and d.attr == "setter" for d in m.decorator_list):
                    return m
        if cls is None and isinstance(st, ast.FunctionDef) and st.name == name:
            return st
    return None


def mutation_sites(fn):
    """(operator name, node index in ast.walk order) for every applicable site in a function."""
    sites = []
    for i, n in enumerate(ast.walk(fn)):
        if isinstance(n, ast.BinOp) and isinstance(n.op, (ast.Add, ast.Sub)):
            sites.append(("flip-sign", i))
        if isinstance(n, ast.BinOp) and isinstance(n.op, (ast.Mult, ast.Div)):
            sites.append(("drop-factor", i))
        if isinstance(n, ast.UnaryOp) and isinstance(n.op, ast.USub):
            sites.append(("drop-negation", i))
        if isinstance(n, ast.keyword) and isinstance(n.value, ast.Constant) and isinstance(n.value.value, bool):
            sites.append(("flip-flag-argument", i))
        if isinstance(n, ast.Raise):
            sites.append(("delete-raise", i))
        if isinstance(n, ast.Compare) and len(n.ops) == 1 and isinstance(n.ops[0], (ast.Gt, ast.Lt, ast.GtE, ast.LtE)):
            sites.append(("weaken-comparison", i))
        if isinstance(n, ast.Compare) and len(n.ops) == 1 and isinstance(n.ops[0], (ast.Eq, ast.NotEq, ast.In, ast.NotIn, ast.Is, ast.IsNot)):
            sites.append(("negate-test", i))
        if isinstance(n, ast.Slice) and n.upper is not None:
            sites.append(("drop-slice-bound", i))
        if isinstance(n, ast.Call) and isinstance(n.func, ast.Attribute) and n.func.attr in ("copy", "dropna") and not n.args:
            sites.append(("drop-%s" % n.func.attr, i))
        if isinstance(n, ast.Call) and isinstance(n.func, ast.Name) and n.func.id == "deepcopy" and len(n.args) == 1:
            sites.append(("drop-deepcopy", i))
        if isinstance(n, ast.BoolOp):
            sites.append(("swap-and-or", i))
        if isinstance(n, ast.If) and not n.orelse and len(n.body) == 1 and isinstance(n.body[0], (ast.Assign, ast.AugAssign, ast.Expr)):
            sites.append(("unguard-statement", i))
        if isinstance(n, ast.AugAssign):
            sites.append(("aug-to-assign", i))
    return sites


def apply_mutation(fn, op, idx):
    for i, n in enumerate(ast.walk(fn)):
        if i != idx:
            continue
        if op == "flip-sign":
            n.op = ast.Sub() if isinstance(n.op, ast.Add) else ast.Add()
        elif op == "drop-factor":
            _replace(fn, n, n.left)
        elif op == "drop-negation":
            _replace(fn, n, n.operand)
        elif op == "flip-flag-argument":
            n.value = ast.Constant(value=not n.value.value)
        elif op == "delete-raise":
            _replace(fn, n, ast.Pass())
        elif op == "weaken-comparison":
            n.ops = [{ast.Gt: ast.GtE, ast.Lt: ast.LtE, ast.GtE: ast.Gt, ast.LtE: ast.Lt}[type(n.ops[0])]()]
        elif op == "negate-test":
            n.ops = [{ast.Eq: ast.NotEq, ast.NotEq: ast.Eq, ast.In: ast.NotIn, ast.NotIn: ast.In, ast.Is: ast.IsNot, ast.IsNot: ast.Is}[type(n.ops[0])]()]
        elif op == "drop-slice-bound":
            n.upper = None
        elif op in ("drop-copy", "drop-dropna"):
            _replace(fn, n, n.func.value)
        elif op == "drop-deepcopy":
            _replace(fn, n, n.args[0])
        elif op == "swap-and-or":
            n.op = ast.Or() if isinstance(n.op, ast.And) else ast.And()
        elif op == "unguard-statement":
            _replace(fn, n, n.body[0])
        elif op == "aug-to-assign":
            _replace(fn, n, ast.Assign(targets=[n.target], value=n.value))
        return True
    return False


def _replace(root, old, new):
    for parent in ast.walk(root):
        for field, value in ast.iter_fields(parent):
            if value is old:
                setattr(parent, field, new)
                return
            if isinstance(value, list):
                for k, x in enumerate(value):
                    if x is old:
                        value[k] = new
                        return


def make_mutant(sources, module, cls, name, op, idx):
    tree = ast.parse(sources[module])
    fn = _find_func(tree, cls, name)
    if fn is None:
        return None
    if not apply_mutation(fn, op, idx):
        return None
    ast.fix_missing_locations(tree)
    out = dict(sources)
    try:
        out[module] = ast.unparse(tree)
        ast.parse(out[module])
    except Exception:
        return None
    return out


# ---------------------------------------------------------------------------------------------
# running one property on a source mapping


def run_on(pid, sources):
    """-> (status, new violation idents)   status in ok / violation / analysis-error"""
    chk = None
    err = None
    try:
        chk = Check(pid, Program(sources))
        registry.run_property(pid, chk)
    except AnalysisError as e:
        err = str(e)[:200]
    except Exception as e:  # noqa
        err = "internal: %r" % (e,)
    if err is not None and (chk is None or not chk.violations):
        return "analysis-error", [err]
    known = load_known()
    listed = set((k["rule"], k["module"], k["host"], k["key"]) for k in known.get("findings", []) if k.get("property") == pid)
    new = [v for v in chk.violations if v.ident() not in listed]
    if new:
        return "violation", ["%s %s %s" % (v.rule, v.host, v.key) for v in new[:4]]
    return "ok", []


def _job(args):
    pid, name, sources = args
    st, info = run_on(pid, sources)
    return name, st, info


def seeded_for(pid):
    root = os.path.join(VERIF, "seeded")
    out = []
    if not os.path.isdir(root):
        return out
    for d in sorted(os.listdir(root)):
        mp = os.path.join(root, d, "meta.json")
        if os.path.exists(mp):
            meta = json.load(open(mp))
            if meta.get("known_unreported"):
                continue  # a confirmed change the rules do not reach (recorded in DESIGN.md 11.6): not part of the sensitivity gate
            if meta.get("property") == pid or pid in meta.get("also_breaks", []):
                out.append((d, os.path.join(root, d, "patch.diff")))
    return out


def apply_patch_in_memory(sources, patch_path):
    tmp = tempfile.mkdtemp(prefix="btlint_seed_")
    try:
        for f, text in sources.items():
            p = os.path.join(tmp, f)
            os.makedirs(os.path.dirname(p) or tmp, exist_ok=True)
            open(p, "w").write(text)
        r = subprocess.run("git init -q . && git apply --whitespace=nowarn %s" % patch_path, shell=True, cwd=tmp, capture_output=True, text=True)
        if r.returncode != 0:
            r = subprocess.run("patch -p1 -s --no-backup-if-mismatch < %s" % patch_path, shell=True, cwd=tmp, capture_output=True, text=True)
            if r.returncode != 0:
                return None
        return {f: open(os.path.join(tmp, f)).read() for f in sources}
    finally:
        shutil.rmtree(tmp, ignore_errors=True)


def run(pid, seed, budget=120):
    rnd = random.Random(seed)
    sources = load_sources()
    lines = []
    failed = None
    jobs = []
    benign = benign_variants(sources)
    for name, src in benign:
        jobs.append((pid, "benign:" + name, src))
    # hand-written behaviour-preserving refactorings (confirmed by the test suite and an output digest): must stay silent
    broot = os.path.join(VERIF, "benign")
    for d in sorted(os.listdir(broot)) if os.path.isdir(broot) else []:
        pp = os.path.join(broot, d, "patch.diff")
        if not os.path.exists(pp):
            continue
        src = apply_patch_in_memory(sources, pp)
        if src is None:
            lines.append("AUDIT-NOTE property=%s refactoring %s no longer applies to the current tree (skipped)" % (pid, d))
            continue
        jobs.append((pid, "benign:refactor:" + d, src))
    seeds = []
    for sid, patch in seeded_for(pid):
        src = apply_patch_in_memory(sources, patch)
        if src is None:
            lines.append("AUDIT-NOTE property=%s seeded change %s no longer applies to the current tree (skipped)" % (pid, sid))
            continue
        seeds.append(sid)
        jobs.append((pid, "seeded:" + sid, src))
    # generated mutants
    cands = []
    for module, cls, name in ANCHORS.get(pid, []):
        tree = ast.parse(sources[module])
        fn = _find_func(tree, cls, name)
        if fn is None:
            continue
        for op, idx in mutation_sites(fn):
            cands.append((module, cls, name, op, idx))
    rnd.shuffle(cands)
    gen = []
    for module, cls, name, op, idx in cands[:budget]:
        src = make_mutant(sources, module, cls, name, op, idx)
        if src is None:
            continue
        gen.append("%s.%s:%s@%d" % (cls, name, op, idx))
        jobs.append((pid, "generated:%s.%s:%s@%d" % (cls, name, op, idx), src))
    with ProcessPoolExecutor(16) as ex:
        results = list(ex.map(_job, jobs, chunksize=2))
    silent = [r for r in results if r[0].startswith("benign:")]
    seeded = [r for r in results if r[0].startswith("seeded:")]
    generated = [r for r in results if r[0].startswith("generated:")]
    noisy = [r for r in silent if r[1] != "ok"]
    for name, st, info in noisy:
        lines.append("AUDIT-FAIL property=%s silence: %s -> %s %s" % (pid, name, st, "; ".join(info)[:300]))
    missed = [r for r in seeded if r[1] != "violation"]
    for name, st, info in missed:
        lines.append("AUDIT-FAIL property=%s sensitivity: %s -> %s %s" % (pid, name, st, "; ".join(info)[:200]))
    killed = [r for r in generated if r[1] == "violation"]
    broke = [r for r in generated if r[1] == "analysis-error"]
    survived = [r for r in generated if r[1] == "ok"]
    by_op = {}
    for name, st, info in generated:
        op = name.split(":")[2].split("@")[0]
        d = by_op.setdefault(op, {"killed": 0, "survived": 0, "analysis-error": 0})
        d["killed" if st == "violation" else "survived" if st == "ok" else "analysis-error"] += 1
    if noisy:
        failed = "%d behaviour-preserving variants made the check fire" % len(noisy)
    elif missed:
        failed = "%d confirmed seeded changes were not reported" % len(missed)
    summary = {
        "benign_variants": len(silent), "benign_silent": len(silent) - len(noisy),
        "seeded_changes": len(seeded), "seeded_reported": len(seeded) - len(missed),
        "generated_mutants": len(generated), "generated_killed": len(killed), "generated_analysis_error": len(broke), "generated_survived": len(survived),
        "by_operator": by_op,
        "survivors_sample": [r[0] for r in survived[:25]],
        "note": "generated mutants are not vetted: a survivor is either behaviour-preserving for this property, outside what the rule set decides, or a gap; they are statistics, not obligations",
    }
    lines.append("AUDIT property=%s silence %d/%d, seeded %d/%d, generated mutants killed %d / %d (analysis-error %d, survived %d)" % (
        pid, summary["benign_silent"], summary["benign_variants"], summary["seeded_reported"], summary["seeded_changes"], len(killed), len(generated), len(broke), len(survived)))
    return {"lines": lines, "summary": summary, "failed": failed}
