"""Violations, obligations, evidence, known findings, exit codes (DESIGN section 7)."""

import json
import os
import time

from . import sym
from .evalfn import Evaluator, property_backing
from .source import AnalysisError, Program

VERIF = os.path.dirname(os.path.dirname(os.path.abspath(__file__)))
KNOWN = os.path.join(VERIF, "known_findings.json")


class Violation(object):
    def __init__(self, rule, module, host, key, message, where=None, expected=None, found=None):
        self.rule = rule
        self.module = module
        self.host = host
        self.key = key
        self.message = message
        self.where = where
        self.expected = expected
        self.found = found

    def ident(self):
        return (self.rule, self.module, self.host, self.key)

    def to_json(self):
        return {"rule": self.rule, "module": self.module, "host": self.host, "key": self.key, "message": self.message, "where": self.where,
                "expected": self.expected, "found": self.found}


class Check(object):
    """Collects the obligations of one property's rule set."""

    def __init__(self, pid, prog=None, tier="quick", inline_depth=6):
        self.pid = pid
        self.prog = prog or Program()
        self.tier = tier
        self.inline_depth = inline_depth
        self.obligations = 0
        self.discharged = 0
        self.sites = 0
        self.distinct = set()
        self.violations = []
        self.samples = []
        self.notes = []
        self.rules = {}
        self.floor = {}
        self.functions = set()
        self._summaries = {}
        self.assumptions = []
        self.explanations = []

    # ---- engine access -----------------------------------------------------------------------------
    def summary(self, module, cls, name, host=None, no_inline=(), depth=None, ignore_refresh=False):
        key = (module, cls, name, host, tuple(no_inline), depth, ignore_refresh)
        if key not in self._summaries:
            fn = self.prog.func(module, cls, name)
            ev = Evaluator(self.prog, inline_depth=self.inline_depth if depth is None else depth, no_inline=no_inline, ignore_refresh=ignore_refresh)
            s = ev.summarize(fn, host)
            s.evaluator = ev
            if s.unsupported:
                raise AnalysisError("unsupported construct in %s %s: %s" % (module, fn.qual, s.unsupported[:3]))
            self._summaries[key] = s
            self.functions.add("%s:%s" % (module, fn.qual))
        return self._summaries[key]

    def spec(self, src, **env):
        """Evaluate a reference formula written as a Python expression over named symbolic values."""
        import ast

        from .evalfn import Frame, State
        from .source import FuncInfo

        tree = ast.parse(src, mode="eval")
        ev = Evaluator(self.prog)
        fake = ast.parse("def _spec(): pass").body[0]
        fi = FuncInfo("bt/core.py", None, fake)
        ev.summary = type("S", (), {"events": [], "unsupported": [], "raises": []})()
        import itertools

        ev.seq = itertools.count(1)
        st = State()
        st.locals = dict(env)
        return ev.ev(tree.body, st, Frame(fi, None, ("spec",)))

    def ref(self, src, host, module="bt/core.py", bindings=None, depth=None, no_inline=(), ignore_refresh=False):
        """Evaluate a reference model (Python source of one function) with the same engine."""
        import ast

        from .source import FuncInfo

        node = ast.parse(src).body[0]
        fi = FuncInfo(module, host, node)
        fi.prog = self.prog
        ev = Evaluator(self.prog, inline_depth=self.inline_depth if depth is None else depth, no_inline=no_inline, ignore_refresh=ignore_refresh)
        s = ev.summarize(fi, host, bindings=bindings)
        s.evaluator = ev
        return s

    # ---- obligations -------------------------------------------------------------------------------
    def ob(self, rule, ok, module, host, key, message, where=None, expected=None, found=None, sample=None):
        self.obligations += 1
        self.rules[rule] = self.rules.get(rule, 0) + 1
        self.distinct.add((rule, module, host, key))
        if ok:
            self.discharged += 1
        else:
            self.violations.append(Violation(rule, module, host, key, message, where, expected, found))
        if sample is not None and len(self.samples) < 12 and (ok or True):
            s = dict(sample)
            s.update({"rule": rule, "site": "%s %s" % (where or module, host), "verdict": "holds" if ok else "VIOLATED"})
            self.samples.append(s)
        return ok

    def site(self, n=1):
        self.sites += n

    def note(self, msg):
        self.notes.append(msg)

    def explain(self, text):
        self.explanations.append(text)

    def assume(self, text):
        if text not in self.assumptions:
            self.assumptions.append(text)

    def need(self, cond, what):
        if not cond:
            raise AnalysisError(what)

    def floor_count(self, rule, count, minimum):
        self.floor[rule] = {"found": count, "floor": minimum}
        if count < minimum:
            raise AnalysisError("%s matched %d sites, below the floor of %d: the recogniser has gone blind" % (rule, count, minimum))


def load_known():
    if not os.path.exists(KNOWN):
        return {"findings": [], "fixed": []}
    with open(KNOWN) as f:
        return json.load(f)


def fmt(v):
    try:
        return sym.fmt(v)
    except Exception:
        return repr(v)
