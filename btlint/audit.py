"""Thorough tier: sensitivity / silence audit of a property's rule set on in-memory variants of /repo's sources
(DESIGN section 8).  Built out in btlint/audit_ops.py; this stub keeps the thorough tier usable meanwhile."""


def run_audit(pid, seed):
    try:
        from . import audit_ops
    except ImportError:
        return {"lines": [], "summary": {"note": "audit catalogue not built yet"}, "failed": None}
    return audit_ops.run(pid, seed)
