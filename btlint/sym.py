"""Symbolic values of the gated value graph (E4) and their canonical form (E3 atoms, E5 algebra).

Values are plain tuples.  `canon(e)` maps a value to a canonical hashable form in
which every arithmetic subtree is a normalised rational function over opaque
atoms, comparisons are oriented, the zero-test and NaN-test families are folded
into one atom each, and boolean connectives are flattened and sorted.
"""

from fractions import Fraction

from .algebra import Rat

SMALL = Fraction(1, 10**6)

_canon_memo = {}


def num(v):
    if isinstance(v, bool):
        return ("bool", v)
    if isinstance(v, int):
        return ("num", Fraction(v))
    if isinstance(v, float):
        if v != v:
            return ("nan",)
        if v in (float("inf"), float("-inf")):
            return ("inf", v > 0)
        return ("num", Fraction(repr(v)))
    if isinstance(v, Fraction):
        return ("num", v)
    raise TypeError(v)


ZERO = ("num", Fraction(0))
ONE = ("num", Fraction(1))
NONE = ("none",)
TRUE = ("bool", True)
FALSE = ("bool", False)

ARITH = {"+", "-", "*", "/", "neg", "**"}
ABS_FUNCS = {"abs", "np.abs", "np.absolute", "math.fabs", "np.fabs"}
NAN_FUNCS = {"np.isnan", "math.isnan", "pd.isnull", "pd.isna", "np.isnat", "pd.notnull_neg"}
FLOOR_FUNCS = {"math.floor", "np.floor"}
CEIL_FUNCS = {"math.ceil", "np.ceil"}
SQRT_FUNCS = {"np.sqrt", "math.sqrt"}


def is_num(e):
    return isinstance(e, tuple) and e and e[0] == "num"


def to_rat(e):
    """Rational normal form of a value (non-arithmetic subtrees become atoms)."""
    t = e[0]
    if t == "num":
        return Rat.const(e[1])
    if t == "bool":
        return Rat.const(1 if e[1] else 0)
    if t in ("+", "-") and len(e) == 3 and _is_dateish(e[1]) and _is_offsetish(e[2]):
        # calendar arithmetic is applied step by step and does not commute ((d - 1 day) - 1 month is not (d - 1 month) - 1 day at a month end)
        return Rat.atom(("dateop", t, canon(e[1]), canon(e[2])))
    if t == "+":
        return to_rat(e[1]).add(to_rat(e[2]))
    if t == "-":
        return to_rat(e[1]).add(to_rat(e[2]), -1)
    if t == "*":
        return to_rat(e[1]).mul(to_rat(e[2]))
    if t == "/":
        d = to_rat(e[2])
        if d.is_zero():
            return Rat.atom(("divzero", canon(e[1])))
        return to_rat(e[1]).div(d)
    if t == "neg":
        return to_rat(e[1]).neg()
    if t == "pos":
        return to_rat(e[1])
    if t == "**":
        ex = to_rat(e[2]).const_value()
        if ex is not None and ex.denominator == 1 and 0 <= ex <= 6:
            r = Rat.const(1)
            b = to_rat(e[1])
            for _ in range(int(ex)):
                r = r.mul(b)
            return r
        return Rat.atom(("**", canon(e[1]), canon(e[2])))
    if t == "call" and e[1] in CEIL_FUNCS and len(e[2]) == 1 and not e[3]:
        # ceil(x) == -floor(-x)
        inner = to_rat(e[2][0]).neg()
        return Rat.atom(("call", "floor", (inner.canon(),), ())).neg()
    if t == "rat":
        return Rat(dict(e[1]), dict(e[2]))
    return Rat.atom(canon(e))


def _is_dateish(x):
    """a node's clock, or a clock moved by offsets"""
    if not (isinstance(x, tuple) and x):
        return False
    if x[0] == "fld" and len(x) == 4 and x[2] == "now" and x[1] != ("param", "self"):
        return True
    if x[0] in ("+", "-") and len(x) == 3:
        return _is_dateish(x[1]) and _is_offsetish(x[2])
    if x[0] == "rat":
        try:
            r = Rat(dict(x[1]), dict(x[2]))
            ats = list(r.atoms())
            return len(ats) == 1 and ats[0][0] == "dateop" and r.canon() == Rat.atom(ats[0]).canon()
        except Exception:
            return False
    return x[0] == "dateop"


def _is_offsetish(x):
    """something that can move a date: not a number, not a date"""
    if not (isinstance(x, tuple) and x):
        return False
    if x[0] in ("num", "bool", "none", "str", "nan"):
        return False
    if contains(x, lambda n: isinstance(n, tuple) and len(n) == 4 and n[0] == "fld" and n[2] == "now"):
        return False
    if contains(x, lambda n: n == ("param", "date")):
        return False
    return x[0] in ("fld", "param", "call", "attr", "new", "mcall")


def _abs_norm(r):
    """abs(-x) == abs(x): pick a canonical sign for the argument."""
    a, b = r.canon(), r.neg().canon()
    return a if repr(a) <= repr(b) else b


def canon(e):
    if not isinstance(e, tuple):
        return e
    k = id(e)
    hit = _canon_memo.get(k)
    if hit is not None and hit[0] is e:
        return hit[1]
    c = _canon(e)
    _canon_memo[k] = (e, c)
    return c


def _is_small_const(e):
    r = to_rat(e).const_value()
    return r is not None and 0 < r <= SMALL


_FULL_SLICE = ("slice", ("none",), ("none",), ("none",))
_WINDOWED_PROPS = ("positions", "universe", "prices", "values", "outlays", "notional_values", "bidoffers", "bidoffers_paid")
_WINDOWED_FIELDS = ("_funiverse",)


def _windowed_owner(x):
    """the node whose clock bounds the history x (an accessor that hands out rows up to that node's `now`), else None"""
    if isinstance(x, tuple) and x:
        if x[0] == "prop" and len(x) == 3 and x[2] in _WINDOWED_PROPS:
            return x[1]
        if x[0] == "fld" and len(x) == 4 and x[2] in _WINDOWED_FIELDS:
            return x[1]
    return None


def _canon_indexer(e):
    """pandas label indexing in one spelling: X.loc[r, :] is X.loc[r]; X.loc[r].loc[c] is X.loc[r, c]; the last row of a history
    that ends at its node's clock is the row of that clock."""
    X, kind, idx = e[1][1], e[1][2], e[2]
    if (kind == "loc" and isinstance(idx, tuple) and len(idx) == 5 and idx[0] == "mcall" and idx[2] == "intersection" and len(idx[3]) == 1 and not idx[4]
            and isinstance(idx[1], tuple) and len(idx[1]) == 3 and idx[1][0] == "attr" and idx[1][2] == "index"
            and isinstance(X, tuple) and len(X) == 5 and X[0] == "mcall" and X[2] == "dropna" and not X[3] and not X[4] and canon(idx[1][1]) == canon(X)):
        # keeping the labels of a set and dropping the missing entries commute: X.dropna().loc[X.dropna().index & S] is X.loc[X.index & S].dropna()
        Y = X[1]
        return canon(("mcall", ("sub", ("attr", Y, "loc"), ("mcall", ("attr", Y, "index"), "intersection", idx[3], ())), "dropna", (), ()))
    if kind == "loc" and idx[0] == "tuple" and len(idx) == 3 and idx[2] == _FULL_SLICE and idx[1][0] not in ("slice", "tuple"):
        return canon(("sub", ("attr", X, "loc"), idx[1]))
    if (kind == "iloc" and isinstance(idx, tuple) and len(idx) == 5 and idx[0] == "mcall" and idx[2] == "get_loc" and len(idx[3]) == 1 and not idx[4]
            and isinstance(idx[1], tuple) and len(idx[1]) == 3 and idx[1][0] == "attr" and idx[1][2] == "index" and canon(idx[1][1]) == canon(X)):
        # the row at the position of a label in the table's own (unique) index is the row of that label
        return canon(("sub", ("attr", X, "loc"), idx[3][0]))
    if kind == "iloc" and _windowed_owner(X) is not None:
        try:
            c = to_rat(idx).const_value()
        except Exception:
            c = None
        if c is not None and c == -1:
            return canon(("sub", ("attr", X, "loc"), ("fld", _windowed_owner(X), "now", 0)))
    if (kind == "loc" and isinstance(X, tuple) and len(X) == 3 and X[0] == "sub" and isinstance(X[1], tuple) and len(X[1]) == 3 and X[1][0] == "attr" and X[1][2] in ("loc", "iloc")
            and idx[0] not in ("tuple",)):
        inner = canon(X)
        if (isinstance(inner, tuple) and len(inner) == 3 and inner[0] == "sub" and isinstance(inner[1], tuple) and len(inner[1]) == 3 and inner[1][0] == "attr" and inner[1][2] == "loc"
                and isinstance(inner[2], tuple) and inner[2] and inner[2][0] not in ("slice", "tuple", "list", "comp", "cmp", "call", "mcall")):
            return ("sub", inner[1], ("tuple", inner[2], canon(idx)))
    return None


def _strip_snapshot(it, calls=("list", "tuple")):
    """xs for list(xs), tuple(xs), xs.copy(): the same elements in the same order"""
    while isinstance(it, tuple) and it:
        if it[0] == "call" and it[1] in calls and len(it[2]) == 1 and not it[3]:
            it = it[2][0]
        elif it[0] == "mcall" and it[2] == "copy" and not it[3] and not it[4]:
            it = it[1]
        elif (it[0] == "mcall" and len(it) == 5 and it[2] == "unique" and not it[3] and not it[4] and isinstance(it[1], tuple) and len(it[1]) == 3 and it[1][0] == "attr"
              and it[1][2] == "index" and _is_row(it[1][1])):
            it = it[1]  # the labels of a row are already unique
        else:
            break
    return it


ISSEC_IS_SECURITY = False  # switched on by the source loader when the constructors establish the invariant


def _canon(e):
    t = e[0]
    if t in ("num", "str", "none", "bool", "nan", "inf", "param", "opaque", "res", "lc", "rat", "class", "func", "impl"):
        return e
    if t == "starred" and len(e) == 2 and isinstance(e[1], tuple) and e[1] and e[1][0] == "tuple":
        return ("starred", canon(("list",) + tuple(e[1][1:])))  # *(a, b) passes what *[a, b] passes
    if t == "+" and len(e) == 3 and all(isinstance(x, tuple) and x and x[0] == "list" for x in e[1:]):
        return canon(("list",) + tuple(e[1][1:]) + tuple(e[2][1:]))  # [a] + [b, c] is [a, b, c]
    if t in ARITH or t == "pos":
        return to_rat(e).canon()
    if t == "fld" and len(e) == 4 and e[2] == "_issec" and ISSEC_IS_SECURITY:
        # the node-kind flag is set once, False by Node and True by SecurityBase (verified on the analysed source): it IS the type test
        return ("call", "isinstance", (canon(e[1]), ("class", "SecurityBase")), ())
    if t == "call":
        f, args, kw = e[1], e[2], e[3]
        if f in ABS_FUNCS and len(args) == 1:
            return ("call", "abs", (_abs_norm(to_rat(args[0])),), ())
        if f in NAN_FUNCS and len(args) == 1:
            return ("isnan", canon(args[0]))
        if f in FLOOR_FUNCS and len(args) == 1:
            return ("call", "floor", (canon(args[0]),), ())
        if f in CEIL_FUNCS and len(args) == 1:
            return to_rat(e).canon()
        if f == "bool" and len(args) == 1 and not kw:
            return canon(args[0])  # truth value of x (values are compared as truth values where they are used as such)
        if f in SQRT_FUNCS and len(args) == 1:
            return ("call", "sqrt", (canon(args[0]),), ())
        if f in ("min", "max") and len(args) == 2 and not kw:
            # min(a, b) is a if a < b else b (on a tie both are the same number)
            a, b = args
            return canon(("ite", ("cmp", "<", a, b), a, b) if f == "min" else ("ite", ("cmp", "<", a, b), b, a))
        if f == "len" and len(args) == 1 and not kw:
            a = args[0]
            while isinstance(a, tuple) and len(a) == 5 and a[0] == "mcall" and a[2] in ("sort_values", "sort_index", "copy", "astype", "fillna", "abs", "rank", "round"):
                a = a[1]  # as many entries as before
            if a is not args[0]:
                return ("call", "len", (canon(a),), ())
        if f == "isinstance" and len(args) == 2 and not kw and isinstance(args[0], tuple) and args[0] and args[0][0] in ("num", "str") and args[1] in (("func", "int"), ("func", "str")):
            # a literal argument (a default position such as `_get_backtest(0)`) is what it is
            if args[0][0] == "str":
                return ("bool", args[1] == ("func", "str"))
            return ("bool", args[1] == ("func", "int") and args[0][1].denominator == 1)
        if f in ("pd.DataFrame", "pandas.DataFrame"):
            # one spelling of a table filled with a constant: DataFrame(c, index=I, columns=[a, b]) / DataFrame(data=c, ...) / DataFrame({a: c, b: c}, index=I)
            kwd = dict(kw)
            rest = tuple(args)
            if len(rest) == 1 and "data" not in kwd:
                kwd["data"], rest = rest[0], ()
            data, cols = kwd.get("data"), kwd.get("columns")
            if (not rest and data is not None and cols is not None and isinstance(cols, tuple) and cols and cols[0] == "list" and all(isinstance(c_, tuple) and c_ and c_[0] == "str" for c_ in cols[1:])
                    and isinstance(data, tuple) and data and (data[0] in ("num", "nan") or (data[0] == "call" and data[1] == "int"))):
                kwd["data"] = ("dict",) + tuple(("tuple", c_, data) for c_ in cols[1:])
                del kwd["columns"]
            if not rest:
                return ("call", "pd.DataFrame", (), tuple(sorted((k, canon(v)) for k, v in kwd.items())))
        if f == "set.union" and len(args) == 2 and not kw:
            return canon(("|", args[0], args[1]))  # the union of two sets
        if f == "set" and len(args) == 1 and not kw and isinstance(args[0], tuple) and len(args[0]) == 3 and args[0][0] == "+":
            return canon(("|", ("call", "set", (args[0][1],), ()), ("call", "set", (args[0][2],), ())))  # set(a + b) is set(a) | set(b)
        if f == "set" and len(args) == 1 and not kw and _dict_iter(args[0]) is not None and _dict_iter(args[0])[0] == "keys":
            return ("call", "set", (("dictiter", canon(_dict_iter(args[0])[1])),), ())  # the set of a dict / of its keys()
        if f in ("list", "tuple", "set", "sorted", "frozenset") and len(args) == 1 and not kw:
            a = _strip_snapshot(args[0]) if f in ("list", "tuple") else _strip_snapshot(args[0], calls=())  # the elements of a copy of xs are the elements of xs
            if a is not args[0]:
                return ("call", f, (canon(a),), ())
        return ("call", f, tuple(canon(a) for a in args), tuple(sorted((k, canon(v)) for k, v in kw)))
    if t == "cmp":
        if len(e) == 3:
            return e  # already canonical: (cmp, op, d) means d op 0
        op, a, b = e[1], e[2], e[3]
        return _canon_cmp(op, a, b)
    if t == "not":
        return neg_atom(canon(e[1]))
    if t in ("and", "or"):
        items = []
        for x in e[1:]:
            cx = canon(x)
            if isinstance(cx, tuple) and cx and cx[0] == t:
                items.extend(cx[1:])
            else:
                items.append(cx)
        absorbing = ("bool", t == "or")
        neutral = ("bool", t == "and")
        if absorbing in items:
            return absorbing
        uniq = sorted(set(x for x in items if x != neutral), key=repr)
        if not uniq:
            return neutral
        if len(uniq) == 1:
            return uniq[0]
        return (t,) + tuple(uniq)
    if t == "ite":
        c, a, b = canon(e[1]), canon(e[2]), canon(e[3])
        if a == b:
            return a
        if c == ("bool", True):
            return a
        if c == ("bool", False):
            return b
        # boolean-valued phi: ite(c, True, x) == c or x, etc.
        if a == ("bool", True):
            return canon(("or", c, b))
        if a == ("bool", False):
            return canon(("and", neg_atom(c), b))
        if b == ("bool", True):
            return canon(("or", neg_atom(c), a))
        if b == ("bool", False):
            return canon(("and", c, a))
        if isinstance(c, tuple) and c and c[0] == "not":
            return ("ite", c[1], b, a)
        return ("ite", c, a, b)
    # ---- iteration over a dict: `for k, v in d.items()`, `for v in d.values()` and `for k in d: d[k]` name the same things
    if t == "elem" and len(e) == 3:
        it0 = _strip_snapshot(e[1])
        if it0 is not e[1]:
            return canon(("elem", it0, e[2]))
        di = _dict_iter(e[1])
        if di is not None:
            kind, X = di
            return ({"items": "ditem", "values": "dval", "keys": "dkey"}[kind], canon(X), e[2])
        return ("elem", canon(e[1]) if isinstance(e[1], tuple) else e[1], e[2])
    if t == "item" and len(e) == 3 and isinstance(e[1], tuple):
        inner = canon(e[1])
        if isinstance(inner, tuple) and inner and inner[0] == "ditem" and e[2] in (0, 1):
            return ("dkey" if e[2] == 0 else "dval", inner[1], inner[2])
        if isinstance(inner, tuple) and inner and inner[0] == "tuple" and isinstance(e[2], int) and 0 <= e[2] < len(inner) - 1:
            return inner[e[2] + 1]
        return ("item", inner, e[2])
    if t == "sub" and len(e) == 3 and isinstance(e[2], tuple) and isinstance(e[1], tuple):
        k = canon(e[2])
        if isinstance(k, tuple) and k and k[0] == "dkey":
            b = canon(e[1])
            if b == k[1]:
                return ("dval", k[1], k[2])  # d[k] for the key being iterated is the value being iterated
            return ("sub", b, k)
    if (t == "sub" and len(e) == 3 and isinstance(e[2], tuple) and len(e[2]) == 5 and e[2][0] == "mcall" and e[2][2] == "isin" and len(e[2][3]) == 1 and not e[2][4]
            and isinstance(e[2][1], tuple) and len(e[2][1]) == 3 and e[2][1][0] == "attr" and e[2][1][2] == "index" and isinstance(e[1], tuple)
            and canon(e[2][1][1]) == canon(e[1])):
        # X[X.index.isin(S)] keeps, in X's order, the rows whose label is in S: X.loc[X.index.intersection(S)] (unique labels)
        return canon(("sub", ("attr", e[1], "loc"), ("mcall", ("attr", e[1], "index"), "intersection", e[2][3], ())))
    if t == "sub" and len(e) == 3 and isinstance(e[1], tuple) and len(e[1]) == 3 and e[1][0] == "attr" and e[1][2] in ("loc", "iloc") and isinstance(e[2], tuple) and e[2]:
        r = _canon_indexer(e)
        if r is not None:
            return r
    if t == "mcall" and len(e) == 5 and e[2] == "abs" and not e[3] and not e[4]:
        return canon(("call", "abs", (e[1],), ()))  # x.abs() is abs(x)
    if t == "mcall" and len(e) == 5 and e[2] in ("div", "truediv", "divide") and len(e[3]) == 1 and not e[4]:
        return canon(("/", e[1], e[3][0]))  # a.div(b) without options is a / b (same label alignment)
    if t == "sub" and len(e) == 3 and isinstance(e[2], tuple) and e[2] and e[2][0] == "str" and isinstance(e[1], tuple) and e[1]:
        fr = canon(e[1])
        if isinstance(fr, tuple) and len(fr) == 4 and fr[0] == "call" and fr[1] == "pd.DataFrame" and not fr[2]:
            kwd = dict(fr[3])
            d = kwd.get("data")
            if set(kwd) == {"data"} and isinstance(d, tuple) and d and d[0] == "dict":
                for item in d[1:]:
                    if isinstance(item, tuple) and len(item) == 3 and item[0] == "tuple" and item[1] == e[2]:
                        return item[2]  # the column a frame was built from (columns of one frame share its index)
    if t == "mcall" and len(e) == 5 and e[2] == "unique" and not e[3] and not e[4] and isinstance(e[1], tuple) and len(e[1]) == 3 and e[1][0] == "attr" and e[1][2] == "index" and _is_row(e[1][1]):
        return canon(e[1])  # the labels of a row are the table's column labels: already unique
    if t in ("mcall", "call") and _dict_iter(e) is not None:
        return ("dictiter", canon(_dict_iter(e)[1]))
    if t == "comp" and len(e) == 5 and e[1] == "dict" and not e[4]:
        v, it = e[2], e[3]
        if (isinstance(v, tuple) and len(v) == 3 and v[0] == "tuple" and all(isinstance(x, tuple) and len(x) == 3 and x[0] == "item" for x in v[1:]) and v[1][2] == 0 and v[2][2] == 1
                and v[1][1] == v[2][1] and isinstance(v[1][1], tuple) and v[1][1][0] == "elem" and v[1][1][1] == it):
            return ("call", "dict", (canon(it),), ())  # {k: v for k, v in pairs} is dict(pairs)
    if t == "comp" and len(e) == 5:
        # the filter of a comprehension is a conjunction: its order is immaterial
        try:
            filt = tuple(sorted(set((canon(a), bool(p)) for a, p in e[4]), key=repr))
        except Exception:
            filt = _canon_any(e[4])
        it = e[3]
        it = _strip_snapshot(it)  # iterating a snapshot of xs is iterating xs
        if isinstance(it, tuple) and len(it) == 5 and it[0] == "comp" and it[1] in ("list", "gen"):
            # a comprehension over a list built by another comprehension is one comprehension over the inner source:
            # [f(a, b) for a, b in [(g(x), h(x)) for x in xs]]  is  [f(g(x), h(x)) for x in xs]
            raws = (e[3], it)
            targets = set(n for part in (e[2], tuple(a for a, _ in e[4]) if isinstance(e[4], tuple) else ()) for n in walk(part)
                          if isinstance(n, tuple) and len(n) == 3 and n[0] == "elem" and n[1] in raws)
            mapping = {n: it[2] for n in targets}
            body2 = substitute(e[2], mapping) if mapping else e[2]
            filt2 = tuple((substitute(a, mapping), p) for a, p in e[4]) + tuple(it[4])
            return canon(("comp", e[1], body2, it[3], filt2))
        di_ = _dict_iter(it) if isinstance(it, tuple) else None
        it_c = ("dictiter", canon(di_[1])) if (di_ is not None and di_[0] == "keys") else (canon(it) if isinstance(it, tuple) else it)
        return ("comp", e[1], _canon_any(e[2]) if not (isinstance(e[2], tuple) and e[2] and isinstance(e[2][0], str)) else canon(e[2]), it_c, filt)
    if t == "dictmerge" and len(e) == 3:
        a, b = e[1], e[2]
        # the result is a new dict either way: a copy of the first operand is the first operand
        while isinstance(a, tuple) and a and ((a[0] == "mcall" and a[2] == "copy" and not a[3]) or (a[0] == "call" and a[1] == "dict" and len(a[2]) == 1 and not a[3])):
            a = a[1] if a[0] == "mcall" else a[2][0]
        return ("dictmerge", canon(a), canon(b))
    if t == "isnan_ne":
        return ("isnan", canon(e[1]))
    if t == "isnone" and len(e) == 2 and isinstance(e[1], tuple) and e[1]:
        # re-simplify after a restriction resolved the operand
        x = e[1]
        if _never_none(x):
            return ("bool", False)
        if x[0] == "none":
            return ("bool", True)
        return ("isnone", canon(x))
    if t == "in" and len(e) == 3 and e[2] in (("dict",), ("list",), ("tuple",), ("set",)):
        return ("bool", False)  # nothing is in an empty container (re-simplified after a restriction resolved the container)
    if t == "in" and len(e) == 3 and isinstance(e[1], tuple) and len(e[1]) == 3 and e[1][0] == "dkey" and e[1][1] == canon(e[2]):
        return ("bool", True)  # a key met while iterating a dict is in that dict
    if t == "sub" and len(e) == 3 and isinstance(e[1], tuple) and e[1] and e[1][0] == "ite" and len(e[1]) == 4:
        # (a if c else b)[k]  is  a[k] if c else b[k]
        return canon(("ite", e[1][1], ("sub", e[1][2], e[2]), ("sub", e[1][3], e[2])))
    if t == "attr" and len(e) == 3 and isinstance(e[1], tuple) and e[1] and e[1][0] == "ite" and len(e[1]) == 4:
        # (a if c else b).n  is  a.n if c else b.n
        return canon(("ite", e[1][1], ("attr", e[1][2], e[2]), ("attr", e[1][3], e[2])))
    # generic structural recursion
    out = [t]
    for x in e[1:]:
        out.append(_canon_any(x))
    return tuple(out)


def _canon_any(x):
    if isinstance(x, tuple):
        if x and isinstance(x[0], str):
            return canon(x)
        return tuple(_canon_any(y) for y in x)
    if isinstance(x, frozenset):
        return frozenset(_canon_any(y) for y in x)
    return x


def _canon_cmp(op, a, b):
    # zero / NaN families first
    if op in ("==", "!="):
        ca, cb = canon(a), canon(b)
        if ca == cb and op == "!=":
            # x != x  is the NaN test
            return ("isnan", ca)
        za = to_rat(a).const_value()
        zb = to_rat(b).const_value()
        res = None
        if za is not None and zb is not None:
            res = ("bool", za == zb)
        elif zb is not None and zb == 0 and za is None:
            res = ("zero", _abs_norm(to_rat(a)))
        elif za is not None and za == 0 and zb is None:
            res = ("zero", _abs_norm(to_rat(b)))
        else:
            if a[0] in ("none",) or b[0] in ("none",):
                other = cb if a[0] == "none" else ca
                res = ("isnone", other)
            elif _nonarith(a) or _nonarith(b):
                x, y = sorted([ca, cb], key=repr)
                res = ("eq", x, y)
            else:
                d = to_rat(a).add(to_rat(b), -1)
                res = ("cmp", "==", _abs_norm(d))
        return res if op == "==" else neg_atom(res)
    if op in ("is", "isnot"):
        ca, cb = canon(a), canon(b)
        if a[0] == "none" and b[0] == "none":
            res = ("bool", True)
        elif (a[0] == "none" and b[0] in ("num", "str", "bool", "tuple", "list", "dict")) or (b[0] == "none" and a[0] in ("num", "str", "bool", "tuple", "list", "dict")):
            res = ("bool", False)
        elif a[0] == "none" or b[0] == "none":
            other_raw = b if a[0] == "none" else a
            if _never_none(other_raw):
                res = ("bool", False)
            else:
                res = ("isnone", cb if a[0] == "none" else ca)
        else:
            x, y = sorted([ca, cb], key=repr)
            res = ("is", x, y)
        return res if op == "is" else neg_atom(res)
    if op in ("in", "notin"):
        if isinstance(b, tuple) and b and b[0] in ("tuple", "list") and 1 <= len(b) - 1 <= 4 and not any(isinstance(x, tuple) and x and x[0] == "starred" for x in b[1:]):
            # x in (a, b): x == a or x == b (identity implies equality; the node classes define no __eq__, so both coincide)
            alts = []
            for y in b[1:]:
                alts.append(_canon_cmp("is", a, y) if (y[0] == "none" or y[0] == "param" or y[0] == "fld") else _canon_cmp("==", a, y))
            res = canon(("or",) + tuple(alts)) if len(alts) > 1 else alts[0]
            return res if op == "in" else neg_atom(res)
        if isinstance(b, tuple) and b in (("dict",), ("list",), ("tuple",), ("set",)):
            res = ("bool", False)  # nothing is in an empty container
            return res if op == "in" else neg_atom(res)
        ca_, cb_ = canon(a), canon(_strip_snapshot(b))  # x in list(xs)  is  x in xs
        if isinstance(ca_, tuple) and len(ca_) == 3 and ca_[0] == "dkey" and ca_[1] == cb_:
            res = ("bool", True)  # a key met while iterating a dict is in that dict
            return res if op == "in" else neg_atom(res)
        res = ("in", ca_, cb_)
        return res if op == "in" else neg_atom(res)
    # orderings: a < b  <=>  (a-b) < 0
    if op == ">":
        a, b, op = b, a, "<"
    elif op == ">=":
        a, b, op = b, a, "<="
    if op == "<" and a[0] == "call" and a[1] in ABS_FUNCS and _is_small_const(b):
        cz = to_rat(a[2][0]).const_value()
        if cz is not None:
            return ("bool", abs(cz) < to_rat(b).const_value())
        return ("zero", _abs_norm(to_rat(a[2][0])))
    if op == "<=" and b[0] == "call" and b[1] in ABS_FUNCS and _is_small_const(a):
        # c <= abs(x)  == not zero
        return ("not", ("zero", _abs_norm(to_rat(b[2][0]))))
    d = to_rat(a).add(to_rat(b), -1)
    return ("cmp", op, d.canon())


_DICT_FIELDS = ("children", "_lazy_children", "additional_data", "perm")


def _dict_iter(it):
    """('items' | 'values' | 'keys', dict value) when `it` iterates a dict that way (a list() snapshot of it included), else None"""
    if not (isinstance(it, tuple) and it):
        return None
    if it[0] == "call" and it[1] == "list" and len(it[2]) == 1 and not it[3]:
        return _dict_iter(it[2][0])
    if it[0] == "mcall" and len(it) >= 5 and it[2] in ("items", "values", "keys") and not it[3] and not it[4]:
        return (it[2], it[1])
    if it[0] == "fld" and len(it) == 4 and it[2] in _DICT_FIELDS:
        return ("keys", it)
    if it[0] == "attr" and len(it) == 3 and it[2] == "index" and _is_row(it[1]):
        return ("keys", it[1])  # the labels of a row (a Series): its .index and its .keys() are the same object
    return None


def _is_row(y):
    """one row picked out of a table by a single label / position: X.loc[r], X.iloc[i], X.loc[r, :]  (a Series)"""
    if not (isinstance(y, tuple) and len(y) == 3 and y[0] == "sub" and isinstance(y[1], tuple) and len(y[1]) == 3 and y[1][0] == "attr" and y[1][2] in ("loc", "iloc")):
        return False
    idx = y[2]
    if not (isinstance(idx, tuple) and idx):
        return False
    if idx[0] == "tuple":
        return len(idx) == 3 and idx[2] == _FULL_SLICE and idx[1][0] in ("fld", "param", "num", "rat", "neg")
    return idx[0] in ("fld", "param", "num", "rat", "neg")


_FRAME_NAMES = ("universe", "data", "_universe", "_funiverse", "_original_data")


def _never_none(x):
    """values that cannot be None whatever the inputs are"""
    if x[0] == "mcall" and len(x) > 2 and x[2] in ("get_loc", "copy", "dropna", "keys", "items", "values"):
        return True
    if x[0] == "rat":
        return True
    if x[0] == "fld" and len(x) == 4 and x[2] == "now":
        return True  # a node's clock starts at 0 and is only ever set to a date
    if x[0] == "sub" and len(x) == 3 and isinstance(x[1], tuple) and len(x[1]) == 3 and x[1][0] == "attr" and x[1][2] in ("loc", "iloc"):
        return True  # label / position indexing selects rows, columns or cells of numeric tables (pandas contract; bt's tables hold floats)
    if x[0] == "sub" and len(x) == 3 and isinstance(x[1], tuple) and x[1]:
        # a column / row of one of bt's price frames is a Series or a number, never None (pandas indexing contract)
        b = x[1]
        if (b[0] == "param" and b[1] in _FRAME_NAMES) or (b[0] == "fld" and len(b) == 4 and b[2] in _FRAME_NAMES):
            return True
    return x[0] in ("+", "-", "*", "/", "neg", "comp", "new", "num", "str", "bool", "tuple", "list", "dict")


def _nonarith(e):
    return e[0] in ("str", "tuple", "list", "dict", "class", "bool")


def neg_atom(c):
    """Negation of a canonical boolean value, kept canonical (negation normal form: De Morgan pushes `not` inward)."""
    if isinstance(c, tuple) and c:
        if c[0] == "not":
            return c[1]
        if c[0] in ("and", "or"):
            other = "or" if c[0] == "and" else "and"
            items = sorted(set(neg_atom(x) for x in c[1:]), key=repr)
            flat = []
            for x in items:
                if isinstance(x, tuple) and x and x[0] == other:
                    flat.extend(x[1:])
                else:
                    flat.append(x)
            flat = sorted(set(flat), key=repr)
            return (other,) + tuple(flat) if len(flat) > 1 else flat[0]
        if c[0] == "bool":
            return ("bool", not c[1])
        if c[0] == "cmp" and c[1] in ("<", "<="):
            # not (d < 0)  ==  -d <= 0 ;  not (d <= 0) == -d < 0
            d = to_rat(c[2]).neg().canon()
            return ("cmp", "<=" if c[1] == "<" else "<", d)
    return ("not", c)


# ----------------------------------------------------------------------------------------------
# literals / guards


def literals(cond, polarity=True):
    """Decompose a canonical boolean value into a conjunction of literals (atom, polarity)
    when that is possible; otherwise one composite literal."""
    c = canon(cond)
    return _lits(c, polarity)


def _lits(c, pol):
    if isinstance(c, tuple) and c:
        if c[0] == "not":
            return _lits(c[1], not pol)
        if c[0] == "and" and pol:
            out = []
            for x in c[1:]:
                out.extend(_lits(x, True))
            return out
        if c[0] == "or" and not pol:
            out = []
            for x in c[1:]:
                out.extend(_lits(x, False))
            return out
        if c[0] == "cmp" and c[1] in ("<", "<=") and not pol:
            return [(neg_atom(c), True)]
        if c[0] == "bool":
            return [] if c[1] == pol else [(("bool", False), True)]
        if c[0] == "call" and c[1] == "len" and len(c) == 4:
            # the truth value of a length is `length != 0`
            return _lits(canon(("cmp", "==", c, ZERO)), not pol)
    return [(c, pol)]


def saturate(guard):
    """Close a conjunction of literals under unit propagation through its disjunctive literals
    (implications recorded at merges: `cond => extra` is the literal (not cond or extra))."""
    g = set()
    for a, pol in guard:
        try:
            g.add((canon(a) if isinstance(a, tuple) and a and a[0] != "impl" else a, pol))
        except Exception:
            g.add((a, pol))
    # compound literals are also recorded through their De Morgan dual
    for a, pol in list(g):
        if isinstance(a, tuple) and a and a[0] in ("and", "or"):
            try:
                g.add((neg_atom(a), not pol))
            except Exception:
                pass
    # orderings: not (d < 0) <=> -d <= 0 ; d < 0 => d <= 0
    for a, pol in list(g):
        if isinstance(a, tuple) and a and a[0] == "cmp" and len(a) == 3 and a[1] in ("<", "<="):
            try:
                nd = to_rat(a[2]).neg().canon()
            except Exception:
                continue
            if pol:
                g.add((("cmp", "<=" if a[1] == "<" else "<", nd), False))
                if a[1] == "<":
                    g.add((("cmp", "<=", a[2]), True))
            else:
                g.add((("cmp", "<=" if a[1] == "<" else "<", nd), True))
    # strict orderings exclude equality; a length is never negative
    for a, pol in list(g):
        if isinstance(a, tuple) and a and a[0] == "cmp" and len(a) == 3 and a[1] in ("<", "<="):
            try:
                r = to_rat(a[2])
            except Exception:
                continue
            if a[1] == "<" and pol and r.const_value() is None:
                g.add((("zero", _abs_norm(r)), False))
                g.add((("cmp", "==", _abs_norm(r)), False))
            sign = _len_sign(r)
            if sign is not None and pol:
                if a[1] == "<" and sign > 0:
                    g.add((("bool", False), True))  # len(..) < 0
                elif a[1] == "<=" and sign > 0:
                    g.add((("zero", _abs_norm(r)), True))  # len(..) <= 0  =>  len(..) == 0
    _len_integer_facts(g)
    changed = True
    n = 0
    while changed and n < 20:
        changed = False
        n += 1
        for a, pol in list(g):
            if not (isinstance(a, tuple) and a):
                continue
            if a[0] == "impl":
                a = a[1]
            disj = None
            if a[0] == "or" and pol:
                disj = [(x[1], False) if (isinstance(x, tuple) and x and x[0] == "not") else (x, True) for x in a[1:]]
            elif a[0] == "and" and not pol:
                disj = [(x[1], True) if (isinstance(x, tuple) and x and x[0] == "not") else (x, False) for x in a[1:]]
            if disj is None:
                continue
            open_ = []
            sat = False
            for x, xp in disj:
                xl = _lits(x, xp)
                if all(_entails(g, l) for l in xl):
                    sat = True
                    break
                if any(_entails(g, (l[0], not l[1])) for l in xl):
                    continue
                cx = canon(x)
                if (cx, not xp) in g:
                    continue
                open_.append(xl)
            if sat:
                continue
            if not open_:
                # every alternative is refuted: the conjunction is inconsistent
                if ((("bool", False), True)) not in g:
                    g.add((("bool", False), True))
                    changed = True
                continue
            if len(open_) == 1:
                for l in open_[0]:
                    if l not in g:
                        g.add(l)
                        changed = True
            else:
                # what every remaining alternative establishes holds: (A and X) or (B and X) |- X
                shared = set(open_[0])
                for o in open_[1:]:
                    shared &= set(o)
                for l in shared:
                    if l not in g:
                        g.add(l)
                        changed = True
    return g


def _len_linear(r):
    """(len-call atom, k, c) when r is k * len(...) + c with constant k != 0 and c, else None"""
    try:
        if list(r.den.keys()) != [()]:
            return None
        d = r.den[()]
        terms = dict((m, v / d) for m, v in r.num.items())
        c = terms.pop((), Fraction(0))
        if len(terms) != 1:
            return None
        (m, k), = terms.items()
        if len(m) != 1 or m[0][1] != 1 or k == 0:
            return None
        at = m[0][0]
        if isinstance(at, tuple) and at and at[0] == "call" and at[1] == "len":
            return at, k, c
    except Exception:
        return None
    return None


def _len_integer_facts(g):
    """A length is a non-negative integer: from the bounds and exclusions stated about one, derive its value (or a contradiction)
    when only one (or no) integer is left - e.g. len <= 1 and len != 0 give len == 1."""
    import math

    info = {}
    for a, pol in list(g):
        if not (isinstance(a, tuple) and a):
            continue
        try:
            if a[0] == "cmp" and len(a) == 3 and a[1] in ("<", "<=", "=="):
                op, r = a[1], to_rat(a[2])
            elif a[0] == "zero" and len(a) == 2:
                op, r = "==", to_rat(a[1])
            else:
                continue
        except Exception:
            continue
        lin = _len_linear(r)
        if lin is None:
            continue
        L, k, c = lin
        rec = info.setdefault(L, {"lo": 0, "hi": None, "ne": set()})
        b = -c / k  # the comparison is about L versus b
        if op == "==":
            if pol:
                if b.denominator != 1 or b < 0:
                    g.add((("bool", False), True))
                    return
                rec["lo"] = max(rec["lo"], int(b))
                rec["hi"] = int(b) if rec["hi"] is None else min(rec["hi"], int(b))
            elif b.denominator == 1:
                rec["ne"].add(int(b))
            continue
        # k*L + c (<|<=) 0
        upper = (k > 0) == pol  # an upper bound on L when k > 0 and the literal holds, or k < 0 and it fails
        strict = (op == "<") == pol
        if upper:
            v = math.ceil(b) - 1 if strict else math.floor(b)
            rec["hi"] = v if rec["hi"] is None else min(rec["hi"], v)
        else:
            v = math.floor(b) + 1 if strict else math.ceil(b)
            rec["lo"] = max(rec["lo"], v)
    for L, rec in info.items():
        if rec["hi"] is None or rec["hi"] - rec["lo"] > 8:
            continue
        vals = [v for v in range(rec["lo"], rec["hi"] + 1) if v not in rec["ne"]]
        if not vals:
            g.add((("bool", False), True))
            return
        if len(vals) == 1:
            v = vals[0]
            g.add((canon(("cmp", "==", L, ("num", Fraction(v)))), True))
            g.add((("zero", _abs_norm(to_rat(L))), v == 0))
            for w in range(0, max(v, rec["hi"]) + 2):
                if w != v:
                    g.add((canon(("cmp", "==", L, ("num", Fraction(w)))), False))


def _len_sign(r):
    """+1 / -1 when r is k * len(...) with k > 0 / k < 0 (a single monomial, no constant, constant denominator)."""
    try:
        if len(r.num) != 1 or list(r.den.keys()) != [()]:
            return None
        (m, k), = r.num.items()
        if len(m) != 1 or m[0][1] != 1:
            return None
        at = m[0][0]
        if isinstance(at, tuple) and at and at[0] == "call" and at[1] == "len":
            k = k / r.den[()]
            return 1 if k > 0 else -1
    except Exception:
        return None
    return None


def lit_holds(guard, atom, pol=True):
    """Does the conjunction `guard` (iterable of literals) entail (atom, pol)?  Syntactic entailment
    plus unit propagation; no solver."""
    atom = canon(atom)
    g = guard if isinstance(guard, _Sat) else _Sat(saturate(guard))
    if (atom, pol) in g:
        return True
    if isinstance(atom, tuple) and atom and atom[0] in ("and", "or", "not"):
        # the same fact stated through its De Morgan dual
        try:
            if (neg_atom(atom), not pol) in g:
                return True
        except Exception:
            pass
    for l in _lits(atom, pol):
        if not _entails(g, l):
            return False
    return True


class _Sat(set):
    """marker: an already saturated literal set"""


def sat(guard):
    return _Sat(saturate(guard))


def inconsistent(g):
    for a, p in g:
        if (a, not p) in g:
            return True
        if a == ("bool", False) and p:
            return True
        if a == ("bool", True) and not p:
            return True
    return False


def _entails(guard, lit):
    g = guard if isinstance(guard, set) else set(guard)
    if lit in g:
        return True
    a, pol = lit
    if isinstance(a, tuple) and a:
        if a[0] == "not" and len(a) == 2:
            return _entails(g, (a[1], not pol))
        if a[0] == "bool":
            return a[1] is pol
        if (a[0] == "or" and pol) or (a[0] == "and" and not pol):
            return any(_entails(g, (x, pol)) for x in a[1:])
        if (a[0] == "and" and pol) or (a[0] == "or" and not pol):
            return all(_entails(g, (x, pol)) for x in a[1:])
        if a[0] == "cmp" and a[1] == "<=" and pol:
            # d <= 0 is entailed by d < 0
            if (("cmp", "<", a[2]), True) in g:
                return True
    return False


def lit_contradicts(guard, atom, pol=True):
    return lit_holds(guard, atom, not pol)


# ----------------------------------------------------------------------------------------------
# traversal helpers


def walk(e):
    """Yield every tuple node of a value (pre-order)."""
    stack = [e]
    while stack:
        x = stack.pop()
        if isinstance(x, tuple):
            if x and isinstance(x[0], str):
                yield x
            for y in x:
                if isinstance(y, (tuple, frozenset)):
                    stack.append(y)
        elif isinstance(x, frozenset):
            stack.extend(x)


def contains(e, pred):
    for n in walk(e):
        if pred(n):
            return True
    return False


def substitute(e, mapping):
    """Replace sub-values (by equality) according to mapping."""
    if isinstance(e, tuple):
        if e in mapping:
            return mapping[e]
        return tuple(substitute(x, mapping) for x in e)
    if isinstance(e, frozenset):
        return frozenset(substitute(x, mapping) for x in e)
    return e


def restrict(v, g):
    """Resolve every gated phi node inside `v` whose condition is decided by the literal set `g`
    (deep: also inside arithmetic, calls and nested conditions)."""
    if not isinstance(g, _Sat):
        g = sat(g)
    return _restrict(v, g)


def _restrict(v, g):
    if isinstance(v, tuple):
        if v and v[0] == "ite" and len(v) == 4:
            c = _restrict(v[1], g)
            try:
                if lit_holds(g, c, True):
                    return _restrict(v[2], g)
                if lit_holds(g, c, False):
                    return _restrict(v[3], g)
            except Exception:
                pass
            return ("ite", c, _restrict(v[2], g), _restrict(v[3], g))
        if v and v[0] in ("rat",):
            return v
        return tuple(_restrict(x, g) for x in v)
    return v


def cases(e, guard=()):
    """Flatten nested `ite` at the top of a value into [(literal-tuple, leaf value)]."""
    if isinstance(e, tuple) and e and e[0] == "ite":
        out = []
        out.extend(cases(e[2], tuple(guard) + tuple(literals(e[1], True))))
        out.extend(cases(e[3], tuple(guard) + tuple(literals(e[1], False))))
        return out
    return [(tuple(guard), e)]


ARITH_LIFT = {"+", "-", "*", "/", "neg", "**"}


_RAW_OF = {}


def _arith_ite_conds(e, acc):
    if not isinstance(e, tuple) or not e:
        return
    if e[0] == "ite":
        c = canon(e[1])
        _RAW_OF.setdefault(c, e[1])
        if c not in acc:
            acc.append(c)
        _arith_ite_conds(e[2], acc)
        _arith_ite_conds(e[3], acc)
    elif e[0] in ARITH_LIFT:
        for x in e[1:]:
            _arith_ite_conds(x, acc)


def _resolve_ites(e, assign):
    if not isinstance(e, tuple) or not e:
        return e
    if e[0] == "ite":
        c = canon(e[1])
        if c in assign:
            return _resolve_ites(e[2] if assign[c] else e[3], assign)
        return e
    if e[0] in ARITH_LIFT:
        return (e[0],) + tuple(_resolve_ites(x, assign) for x in e[1:])
    return e


def split_cases(e, limit=8, raw=False):
    """Lift gated phi nodes out of arithmetic: [(literal-tuple, phi-free value)] for every consistent
    assignment of the phi conditions that occur in arithmetic position under the top of `e`."""
    conds = []
    _arith_ite_conds(e, conds)
    if not conds:
        return [((), e, ())] if raw else [((), e)]
    if len(conds) > limit:
        return [((), e, ())] if raw else [((), e)]
    out = []
    n = len(conds)
    seen = set()
    for mask in range(1 << n):
        assign = {conds[i]: bool(mask >> i & 1) for i in range(n)}
        v = _resolve_ites(e, assign)
        # only the conditions actually consulted matter
        used = []
        _used_conds(e, assign, used)
        g = tuple((c, assign[c]) for c in conds if c in used)
        key = (g, )
        if key in seen:
            continue
        seen.add(key)
        lits = []
        for c, pol in g:
            lits.extend(_lits(c, pol))
        if _contradiction(lits):
            continue
        if raw:
            out.append((tuple(lits), v, tuple((_RAW_OF.get(c, c), pol) for c, pol in g)))
        else:
            out.append((tuple(lits), v))
    return out


def _used_conds(e, assign, used):
    if not isinstance(e, tuple) or not e:
        return
    if e[0] == "ite":
        c = canon(e[1])
        if c in assign:
            if c not in used:
                used.append(c)
            _used_conds(e[2] if assign[c] else e[3], assign, used)
    elif e[0] in ARITH_LIFT:
        for x in e[1:]:
            _used_conds(x, assign, used)


def _contradiction(lits):
    s = set()
    for a, p in lits:
        if (a, not p) in s:
            return True
        s.add((a, p))
    return False


def equal(a, b, _depth=0):
    """Semantic equality within the algebra: canonical forms equal, or rational cross-multiplication."""
    ca, cb = canon(a), canon(b)
    if ca == cb:
        return True
    try:
        if to_rat(a).equals(to_rat(b)):
            return True
    except Exception:
        pass
    if _depth < 2:
        try:
            return _equal_by_sign(a, b, ca, cb, _depth)
        except Exception:
            return False
    return False


def _abs_args(c, acc):
    for n in walk(c):
        if isinstance(n, tuple) and len(n) == 4 and n[0] == "call" and n[1] == "abs" and len(n[2]) == 1 and not n[3]:
            if n[2][0] not in acc:
                acc.append(n[2][0])


def _single_atom(r):
    """the atom x when the value is c*x (c a non-zero constant), else None"""
    rr = to_rat(r)
    if list(rr.den.keys()) != [()] or len(rr.num) != 1:
        return None
    (mono, coef), = rr.num.items()
    if len(mono) == 1 and mono[0][1] == 1 and coef != 0:
        return mono[0][0]
    return None


def _equal_by_sign(a, b, ca, cb, depth):
    """abs(x) against a sign-selected branch (`h if q >= 0 else -h`): decide by the three sign cases of x."""
    args = []
    _abs_args(ca, args)
    _abs_args(cb, args)
    for A in args[:2]:
        ok = True
        for s in (1, -1, 0):
            repl = A if s > 0 else ("neg", A) if s < 0 else ZERO

            def rw(v):
                if isinstance(v, tuple):
                    if len(v) == 4 and v[0] == "call" and v[1] == "abs" and len(v[2]) == 1 and not v[3]:
                        cv = canon(v)
                        if cv[0] == "call" and cv[2][0] == A:
                            return repl
                    if v and v[0] == "rat":
                        return v
                    return tuple(rw(x) for x in v)
                return v
            g = sat([(canon(("cmp", ">" if s > 0 else "<" if s < 0 else "==", A, ZERO)), True)])
            x, y = rw(ca), rw(cb)
            x, y = rw(a) if x == ca else x, rw(b) if y == cb else y
            if s == 0:
                atom = _single_atom(A)
                if atom is None:
                    ok = False
                    break
                x, y = substitute(rw(a), {atom: ZERO}), substitute(rw(b), {atom: ZERO})
            if not equal(_restrict(x, g), _restrict(y, g), depth + 1):
                ok = False
                break
        if ok:
            return True
    return False


# ----------------------------------------------------------------------------------------------
# pretty printer


def fmt(e, depth=0):
    if not isinstance(e, tuple) or not e:
        return repr(e)
    if depth > 12:
        return "..."
    t = e[0]
    f = lambda x: fmt(x, depth + 1)
    if t == "num":
        v = e[1]
        return str(v.numerator) if v.denominator == 1 else str(float(v))
    if t == "str":
        return repr(e[1])
    if t == "none":
        return "None"
    if t == "bool":
        return str(e[1])
    if t == "nan":
        return "nan"
    if t == "param":
        return e[1]
    if t == "fld":
        s = "%s.%s" % (f(e[1]), e[2])
        return s if e[3] == 0 else "%s@%s" % (s, e[3])
    if t == "attr":
        return "%s.%s" % (f(e[1]), e[2])
    if t == "sub":
        return "%s[%s]" % (f(e[1]), f(e[2]))
    if t == "slice":
        return "%s:%s" % ("" if e[1] == NONE else f(e[1]), "" if e[2] == NONE else f(e[2]))
    if t in ("+", "-", "*", "/", "**"):
        return "(%s %s %s)" % (f(e[1]), t, f(e[2]))
    if t == "neg":
        return "-%s" % f(e[1])
    if t == "call":
        args = [f(a) for a in e[2]] + ["%s=%s" % (k, f(v)) for k, v in e[3]]
        return "%s(%s)" % (e[1], ", ".join(args))
    if t == "mcall":
        args = [f(a) for a in e[3]] + ["%s=%s" % (k, f(v)) for k, v in e[4]]
        return "%s.%s(%s)" % (f(e[1]), e[2], ", ".join(args))
    if t == "cmp":
        if len(e) == 4:
            return "(%s %s %s)" % (f(e[2]), e[1], f(e[3]))
        return "(%s %s 0)" % (f(e[2]), e[1])
    if t == "not":
        return "not %s" % f(e[1])
    if t in ("and", "or"):
        return "(" + (" %s " % t).join(f(x) for x in e[1:]) + ")"
    if t == "ite":
        return "(%s if %s else %s)" % (f(e[2]), f(e[1]), f(e[3]))
    if t == "elem":
        return "each(%s)" % f(e[1])
    if t == "sum":
        g = fmt_guard(e[2])
        return "SUM[%s%s](%s)" % (f(e[1]), (" | " + g) if g else "", f(e[3]))
    if t == "res":
        return "result#%s" % (e[1],)
    if t == "rat":
        from .algebra import fmt_poly

        n, d = dict(e[1]), dict(e[2])
        if list(d.keys()) == [()] and d[()] == 1:
            return "(%s)" % fmt_poly(n)
        return "(%s)/(%s)" % (fmt_poly(n), fmt_poly(d))
    if t in ("zero", "isnan", "isnone"):
        return "%s(%s)" % (t, f(e[1]))
    if t in ("tuple", "list", "set"):
        return "%s(%s)" % (t, ", ".join(f(x) for x in e[1:]))
    return "%s(%s)" % (t, ", ".join(fmt(x, depth + 1) if isinstance(x, tuple) else repr(x) for x in e[1:]))


def fmt_guard(g):
    parts = []
    for a, pol in g:
        if isinstance(a, tuple) and a and a[0] == "impl":
            continue
        parts.append(("" if pol else "not ") + fmt(a))
    return " and ".join(parts)
