"""Equivalence of two gated value graphs by truth table over their branch atoms.

Both summaries (the analysed function and a reference model evaluated by the same engine) are
reduced to: return value and observable effects (field writes, in-place stores, calls on nodes /
of values) as functions of the truth assignment of the finite set of primitive branch atoms that
occur in either.  Every consistent assignment is enumerated (finite, no solver) and the two
behaviours are compared in canonical form.
"""

import itertools

from . import sym
from .sym import canon


def _has_ite(v):
    return sym.contains(v, lambda n: n[0] == "ite" and len(n) == 4)


def _primitive_atoms(a, acc):
    a = canon(a)
    if isinstance(a, tuple) and a:
        if a[0] in ("and", "or"):
            for x in a[1:]:
                _primitive_atoms(x, acc)
            return
        if a[0] in ("not", "impl"):
            _primitive_atoms(a[1], acc)
            return
        if a[0] == "bool":
            return
        if a[0] == "cmp" and a[1] in ("<", "<="):
            # orderings come in complementary pairs: keep one orientation
            neg = sym.neg_atom(a)
            if neg in acc:
                return
    if a not in acc:
        acc.append(a)


def normalize_results(S, fmap=None, pmap=None):
    """Replace opaque call results ('res', id) by a description of the call so that two summaries are comparable.
    fmap renames the receiver's private constructor-bound fields to the parameter they store; pmap renames parameters
    (positional alpha-renaming: the k-th parameter of the code is the k-th parameter of the reference)."""
    fmap = fmap or {}
    pmap = pmap or {}
    table = {}
    for e in S.events:
        if e.kind == "call" and e.result is not None and isinstance(e.result, tuple) and e.result[0] == "res":
            table[e.result] = e
    memo = {}
    ordinals = {}
    # try statements are numbered in program order (their ids are issued in that order)
    tids = set()

    def _scan(v):
        if isinstance(v, tuple):
            for n in sym.walk(v):
                if n[0] == "raised" and len(n) == 3:
                    tids.add(n[1])
    for e in S.events:
        for a, _p in e.guard:
            _scan(a)
        for attr in ("value", "index", "base", "recv"):
            _scan(getattr(e, attr, None))
        for a in (getattr(e, "args", None) or ()):
            _scan(a)
    for st_, rv_ in S.exits:
        for a, _p in st_.guard:
            _scan(a)
        _scan(rv_)
    for k, t in enumerate(sorted(tids, key=lambda x: (str(type(x)), x))):
        ordinals[("raised", t)] = k

    def ordinal(tag, name):
        k = (tag, name)
        if k not in ordinals:
            ordinals[k] = len([x for x in ordinals if x[0] == tag])
        return ordinals[k]

    def norm(v, depth=0):
        if isinstance(v, tuple):
            if v and v[0] == "res":
                if v in memo:
                    return memo[v]
                e = table.get(v)
                if e is None or depth > 6:
                    return ("resof", "?")
                memo[v] = ("resof", e.name, "?")
                out = ("resof", e.name, norm(e.recv, depth + 1) if e.recv is not None else (norm(e.extra, depth + 1) if isinstance(e.extra, tuple) else None),
                       tuple(norm(a, depth + 1) for a in (e.args or ())), tuple(sorted((k, norm(x, depth + 1)) for k, x in (e.kwargs or {}).items())))
                memo[v] = out
                return out
            if v and v[0] == "param" and len(v) == 2 and v[1] in pmap:
                return ("param", pmap[v[1]])
            if v and v[0] == "fld" and len(v) == 4:
                fname = v[2]
                if fmap and v[1] == ("param", "self") and fname in fmap:
                    fname = fmap[fname]
                return ("fld", norm(v[1], depth), fname, 0 if v[3] == 0 else 1)
            if v and v[0] in ("lambda", "opaque") :
                return (v[0],)
            if v and v[0] == "loopmix":
                return ("loopmix",) + tuple(norm(x, depth) for x in v[3:])
            if v and v[0] == "loopval":
                return ("loopval", norm(v[3], depth) if isinstance(v[3], tuple) else v[3])
            if v and v[0] in ("wl", "wlout", "lc") and len(v) >= 3:
                return (v[0], ordinal(v[0] if v[0] != "wlout" else "wl", v[1])) + tuple(norm(x, depth) for x in v[3:])
            if v and v[0] == "raised":
                # the k-th try statement met (in program order), so that two different try blocks stay two different conditions
                return ("raised", ordinal("raised", v[1]), v[2])
            return tuple(norm(x, depth) for x in v)
        if isinstance(v, frozenset):
            return frozenset(norm(x, depth) for x in v)
        return v

    return norm


def _fold_comps_by_length(v, g):
    """A comprehension over a collection whose length the assignment fixes to 0 or 1 is the empty container / the one-element container
    built from its first element:  {x: 1.0 for x in xs} is {} when len(xs) == 0 and {xs[0]: 1.0} when len(xs) == 1."""
    if not isinstance(v, tuple) or not v:
        return v
    if v[0] == "rat":
        return v
    if v[0] == "comp" and len(v) == 5 and not v[4] and isinstance(v[3], tuple) and v[1] in ("list", "dict", "set"):
        it = v[3]
        L = ("call", "len", (it,), ())
        try:
            if sym.lit_holds(g, ("zero", sym._abs_norm(sym.to_rat(L))), True):
                return (v[1],)
            if sym.lit_holds(g, canon(("cmp", "==", L, sym.ONE)), True):
                first = ("sub", it, sym.ZERO)
                targets = set(n for n in sym.walk(v[2]) if isinstance(n, tuple) and len(n) == 3 and n[0] == "elem" and n[1] == it)
                body = sym.substitute(v[2], {n: first for n in targets})
                if v[1] == "dict" and isinstance(body, tuple) and len(body) == 3 and body[0] == "tuple":
                    return ("dict", body)
                if v[1] in ("list", "set"):
                    return (v[1], body)
        except Exception:
            pass
    return tuple(_fold_comps_by_length(x, g) for x in v)


def _drop_dead_writes(effs):
    """A top-level field write that is overwritten later on the same path, with nothing in between that could observe it (no call that may read
    state, no raise), is not part of the behaviour: `self.x = tmp; ...; self.x = final` is `self.x = final`."""
    later = set()
    out = []
    failing = False  # between the last call and a top-level raise: the object's own half-set fields are seen by nobody (the operation failed)
    for e in reversed(effs):
        if e[0] == "raise":
            later = set()
            failing = e[1] == ()
            out.append(e)
        elif e[0] == "call":
            later = set()
            failing = False
            out.append(e)
        elif e[0] == "write" and e[1] == ():
            k = (e[2], e[3])
            if k in later or (failing and e[2] == ("param", "self")):
                continue
            later.add(k)
            out.append(e)
        else:
            out.append(e)
    out.reverse()
    return out


def _commute_writes(effs):
    """Consecutive plain field writes (nothing that could observe them in between) to different fields commute:
    order each such run by field name (stable, so two writes of one field keep their order)."""
    def flush(run):
        # within such a run only the last write of a field is visible: an earlier one (a default set before the real value) is dead
        last = {}
        for i, w in enumerate(run):
            last[(w[2], w[3])] = i
        kept = [w for i, w in enumerate(run) if last[(w[2], w[3])] == i]
        return sorted(kept, key=lambda x: str(x[3]))

    out, run = [], []
    for e in effs:
        if e[0] == "write":
            if run and run[0][1] != e[1]:
                out.extend(flush(run))
                run = []
            run.append(e)
        else:
            if run:
                out.extend(flush(run))
                run = []
            out.append(e)
    if run:
        out.extend(flush(run))
    return out


class Need(Exception):
    """evaluation consulted a condition the current partial assignment does not decide"""

    def __init__(self, atom):
        Exception.__init__(self, "undecided")
        self.atom = atom


def _undecided_atom(cond, g):
    acc = []
    _primitive_atoms(cond, acc)
    for a in acc:
        if a[0] == "bool":
            continue
        if not sym.lit_holds(g, a, True) and not sym.lit_holds(g, a, False):
            return a
    return None


def _judge(cond, p, g):
    """True / False when g decides the literal; raises Need otherwise."""
    if sym.lit_holds(g, cond, p):
        return True
    if sym.lit_holds(g, cond, not p):
        return False
    a = _undecided_atom(cond, g)
    if a is None:
        return False
    raise Need(a)


def _first_open_ite(v, g):
    """the first phi condition left inside a restricted value that g does not decide"""
    for n in sym.walk(v):
        if n[0] == "ite" and len(n) == 4 and not _has_ite(n[1]):
            c = canon(n[1])
            a = _undecided_atom(c, g)
            if a is not None:
                return a
    return None


def _pure_callee(S, e):
    cands = e.callee or []
    if not cands or not all(hasattr(c, "qual") for c in cands):
        return False
    prog = getattr(S.fn, "prog", None)
    if prog is None:
        return False
    eff = getattr(prog, "_effects_cache", None)
    if eff is None:
        from .evalfn import compute_effects

        eff = compute_effects(prog)
        try:
            prog._effects_cache = eff
        except Exception:
            pass
    return all(c in eff and not eff[c] for c in cands)


class Behaviour(object):
    def __init__(self, S, observe_self_fields=True, fmap=None, pmap=None):
        self.S = S
        self.fmap = fmap or {}
        self.norm = normalize_results(S, self.fmap, pmap)
        self.effects = []
        fnq = S.fn.qual
        for e in S.events:
            if e.kind == "write":
                if e.obj[0] == "attr" and e.field == "writeable":
                    continue
                self.effects.append(("write", e))
            elif e.kind == "store":
                self.effects.append(("store", e))
            elif e.kind == "call":
                if e.inlined:
                    continue
                if e.extra == "new":
                    continue
                if _pure_callee(S, e):
                    continue  # a call that can assign nothing is visible only through its result (how often and when it is made is immaterial)
                self.effects.append(("call", e))
            elif e.kind == "raise":
                self.effects.append(("raise", e))
        self.exits = S.exits
        self.raises = S.raises

    def _guard_atoms(self, x, acc):
        for a, p in x.guard:
            if _has_ite(a):
                continue  # decided through its raw form below
            _primitive_atoms(self.norm(a), acc)
        for c, p in (getattr(x, "graw", None) or ()):
            if not _has_ite(c):
                continue
            # a condition over a phi value: its atoms are the phi conditions and the condition on every resolved case
            conds = []
            for n in sym.walk(c):
                if n[0] == "ite" and len(n) == 4:
                    cc = canon(self.norm(n[1]))
                    if not _has_ite(cc) and cc not in conds:
                        conds.append(cc)
            for cc in conds:
                _primitive_atoms(cc, acc)
            if len(conds) <= 4:
                for bits in itertools.product((True, False), repeat=len(conds)):
                    gg = sym.sat(tuple(zip(conds, bits)))
                    if sym.inconsistent(gg):
                        continue
                    r = canon(sym.restrict(self.norm(c), gg))
                    if not _has_ite(r):
                        _primitive_atoms(r, acc)

    def atoms(self):
        acc = []
        for _, e in self.effects:
            self._guard_atoms(e, acc)
        for st, rv in self.exits:
            self._guard_atoms(st, acc)
            self._value_atoms(rv, acc)
        for _, e in self.effects:
            for v in self._effect_values(e):
                self._value_atoms(v, acc)
        return acc

    def _value_atoms(self, v, acc, depth=0):
        if isinstance(v, tuple) and v and depth < 8:
            if v[0] == "ite":
                _primitive_atoms(self.norm(v[1]), acc)
                self._value_atoms(v[2], acc, depth + 1)
                self._value_atoms(v[3], acc, depth + 1)
            elif v[0] in ("+", "-", "*", "/", "neg", "tuple", "not", "and", "or", "cmp"):
                for x in v[1:]:
                    self._value_atoms(x, acc, depth + 1)
                if depth == 0:
                    try:
                        cv = canon(self.norm(v))
                    except Exception:
                        cv = None
                    if isinstance(cv, tuple) and cv and cv[0] in _BOOLEAN:
                        _primitive_atoms(cv, acc)

    def _effect_values(self, e):
        if e.kind == "write":
            return [e.value]
        if e.kind == "store":
            return [e.index, e.value]
        if e.kind == "call":
            return list(e.args or []) + list((e.kwargs or {}).values())
        return []

    def evaluate(self, g):
        """Behaviour under the saturated literal set g: (return value or 'raise'/'?', [effect signatures])."""
        ret = None
        for st, rv in self.exits:
            if self._holds(st, g):
                ret = ("return", _decide(self._val(rv, g), g))
                break
        effs = []
        for kind, e in self.effects:
            if not self._holds(e, g):
                continue
            # the loops an effect sits in; their filters are ordinary guard literals of the effect (already judged by _holds),
            # so `for x in xs: if c(x): f(x)` and `for x in [x for x in xs if c(x)]: f(x)` are the same effect
            loops = tuple((canon(self.norm(l.iter)) if not l.is_while else ("while",), ()) for l in e.loops)
            r = lambda v: self._val(v, g)
            if kind == "write":
                ov, vv = r(e.obj), r(e.value)
                fname = self.fmap.get(e.field, e.field) if e.obj == ("param", "self") else e.field
                if not loops and not any(x[0] == "write" and x[2] == ov and x[3] == fname for x in effs):
                    # assigning a field the value it holds on entry changes nothing: `x.f = x.f`, or `x.f = True` on a path where x.f is known to be true
                    entry = canon(("fld", self.norm(e.obj), e.field, 0))
                    try:
                        if vv == entry or (vv in (sym.TRUE, sym.FALSE) and sym.lit_holds(g, entry, vv == sym.TRUE)):
                            continue
                    except Exception:
                        pass
                effs.append(("write", loops, ov, fname, vv))
            elif kind == "store":
                aug, val = e.aug, r(e.value)
                if aug is None:
                    # row[i] = row[i] + x  is the increment  row[i] += x
                    try:
                        cell = sym.restrict(("sub", self.norm(e.base), self.norm(e.index)), g)
                        raw = sym.restrict(self.norm(e.value), g)
                        if sym.contains(raw, lambda n: n[0] == "sub" and canon(n) == canon(cell)):
                            d = sym.to_rat(("-", raw, cell))
                            if not any(canon(a) == canon(cell) for a in d.atoms()):
                                aug, val = "+", d.canon()
                    except Exception:
                        pass
                elif aug == "+":
                    try:
                        val = sym.to_rat(sym.restrict(self.norm(e.value), g)).canon()
                    except Exception:
                        pass
                effs.append(("store", loops, r(e.base), r(e.index), aug, val))
            elif kind == "call":
                tgt = r(e.recv) if e.recv is not None else (r(e.extra) if isinstance(e.extra, tuple) else None)
                effs.append(("call", loops, tgt, e.name, tuple(r(a) for a in (e.args or ())), tuple(sorted((k, r(v)) for k, v in (e.kwargs or {}).items()))))
            elif kind == "raise":
                effs.append(("raise", loops, e.exc))
        if ret is None:
            ret = ("raise",) if any(k == "raise" for k, *_ in effs) else ("?",)
        return ret, _commute_writes(_drop_dead_writes(effs))

    def _holds(self, x, g):
        for a, p in x.guard:
            if isinstance(a, tuple) and a and a[0] == "impl":
                a = a[1]
            if _has_ite(a):
                continue
            if not _judge(canon(self.norm(a)), p, g):
                return False
        for c, p in (getattr(x, "graw", None) or ()):
            if not _has_ite(c):
                continue
            r = canon(sym.restrict(self.norm(c), g))
            if r == ("bool", p):
                continue
            if r == ("bool", not p):
                return False
            if _has_ite(r):
                a = _first_open_ite(sym.restrict(self.norm(c), g), g)
                if a is not None:
                    raise Need(a)
                return False
            if not _judge(r, p, g):
                return False
        return True

    def _val(self, v, g):
        if v is None:
            return None
        r = _fold_comps_by_length(sym.restrict(self.norm(v), g), g)
        if _has_ite(r):
            a = _first_open_ite(r, g)
            if a is not None:
                raise Need(a)
        return canon(r)


_BOOLEAN = ("cmp", "zero", "isnan", "isnone", "eq", "in", "is", "and", "or", "not")


def _decide(v, g):
    """A returned truth value is compared as a truth value: resolve it when the assignment decides it."""
    if isinstance(v, tuple) and v:
        try:
            if (v, True) in g or (v[0] in _BOOLEAN and sym.lit_holds(g, v, True)):
                return sym.TRUE
            if (v, False) in g or (v[0] in _BOOLEAN and sym.lit_holds(g, v, False)):
                return sym.FALSE
        except Exception:
            pass
    return v


def _const_eq(a):
    """(expr canon, const) if atom says expr == const."""
    if a[0] == "zero":
        return (a[1], 0)
    if a[0] == "cmp" and a[1] == "==":
        r = sym.to_rat(a[2])
        # d == 0 with d = x - c
        if len(r.num) == 2 and () in r.num:
            c = r.num[()]
            rest = {m: k for m, k in r.num.items() if m != ()}
            (m, k), = rest.items()
            if len(m) == 1 and m[0][1] == 1:
                from fractions import Fraction

                val = -c / k
                expr = sym.Rat({m: Fraction(1)}).canon()
                return (sym._abs_norm(sym.Rat({m: Fraction(1)})), ("c", val))
    return None


def feasible(assign):
    """Cheap arithmetic consistency: an expression cannot equal two different constants."""
    vals = {}
    for a, p in assign:
        if not p:
            continue
        ce = _const_eq(a)
        if ce is None:
            continue
        k, c = ce
        if a[0] == "zero":
            c = ("c", 0)
        if k in vals and vals[k] != c:
            return False
        vals[k] = c
    return True


def _final_self_state(effs):
    """Constructor view: the object under construction is judged by the state it ends in. Top-level writes of its own fields are replaced by
    (field, final value) pairs; everything else (calls, stores, writes on other objects, writes inside loops) keeps its order."""
    last, rest = {}, []
    for x in effs:
        if x[0] == "write" and x[1] == () and x[2] == ("param", "self"):
            last[x[3]] = x[4]
        else:
            rest.append(x)
    return rest + [("final", f, last[f]) for f in sorted(last, key=str)]


def compare(S_code, S_ref, limit=14, ignore_fields=(), max_leaves=6000, code_fields=None, ref_fields=None, final_self=False, class_defaults=None):
    """class_defaults: {field: canonical constant} of the class under analysis - assigning a field the value its class already
    provides changes nothing a reader can see, so such top-level writes of `self` are dropped on both sides."""
    """Return (n_cases, differences[:k]) - differences are (assignment, what, code, ref).

    The case split is made on demand: both behaviours are evaluated under a partial assignment of
    branch atoms; whenever either evaluation consults a condition the assignment does not decide, the
    assignment is split on that atom.  Every leaf is a set of literals under which both behaviours
    are fully determined; `limit` bounds the depth of the split by 2*limit atoms."""
    pmap = {}
    try:
        pc, pr = list(S_code.fn.params), list(S_ref.fn.params)
        if len(pc) == len(pr) and pc != pr and not (S_code.fn.vararg or S_code.fn.kwarg or S_ref.fn.vararg or S_ref.fn.kwarg):
            # the names of the parameters are immaterial to what the function does: match them by position
            pmap = dict((a, b) for a, b in zip(pc, pr) if a != b and a != "self")
            if set(pmap.values()) & (set(pc) - set(pmap)):
                pmap = {}
    except Exception:
        pmap = {}
    A, B = Behaviour(S_code, fmap=code_fields, pmap=pmap), Behaviour(S_ref, fmap=ref_fields)
    ignore_fields = set(ignore_fields) | set((code_fields or {}).get(f, f) for f in ignore_fields) | set((ref_fields or {}).get(f, f) for f in ignore_fields)
    diffs = []
    count = [0]
    deepest = [0]

    class _TooMany(Exception):
        pass

    def explore(assign):
        if len(diffs) >= 3:
            return
        if not feasible(assign):
            return
        g = sym.sat(assign)
        if sym.inconsistent(g):
            return
        try:
            ra, ea = A.evaluate(g)
            rb, eb = B.evaluate(g)
        except Need as need:
            if len(assign) >= 2 * limit:
                deepest[0] = len(assign) + 1
                raise _TooMany()
            for bit in (True, False):
                explore(assign + ((need.atom, bit),))
            return
        count[0] += 1
        if count[0] > max_leaves:
            deepest[0] = len(assign)
            raise _TooMany()
        ea = [x for x in ea if not (x[0] == "write" and x[3] in ignore_fields)]
        eb = [x for x in eb if not (x[0] == "write" and x[3] in ignore_fields)]
        if class_defaults:
            ea = [x for x in ea if not (x[0] == "write" and x[1] == () and x[2] == ("param", "self") and x[3] in class_defaults and x[4] == class_defaults[x[3]])]
            eb = [x for x in eb if not (x[0] == "write" and x[1] == () and x[2] == ("param", "self") and x[3] in class_defaults and x[4] == class_defaults[x[3]])]
        if final_self:
            ea, eb = _final_self_state(ea), _final_self_state(eb)
        if ra != rb:
            diffs.append((assign, "return", ra, rb))
        elif ea != eb:
            k = 0
            while k < min(len(ea), len(eb)) and ea[k] == eb[k]:
                k += 1
            diffs.append((assign, "effect#%d" % k, ea[k] if k < len(ea) else None, eb[k] if k < len(eb) else None))

    try:
        explore(())
    except _TooMany:
        return -max(deepest[0], 1), [((), "too-many-atoms", deepest[0], limit)]
    return count[0], diffs


def fmt_assign(assign):
    return sym.fmt_guard([(a, p) for a, p in assign])
