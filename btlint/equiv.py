"""Equivalence of two gated value graphs by truth table over their branch atoms.

Both summaries (the analysed function and a reference model evaluated by the same engine) are
reduced to: return value and observable effects (field writes, in-place stores, calls on nodes /
of values) as functions of the truth assignment of the finite set of primitive branch atoms that
occur in either.  Every consistent assignment is enumerated (finite, no solver) and the two
behaviours are compared in canonical form.
"""

import itertools

from . import sym
from .sym import canon


def _primitive_atoms(a, acc):
    a = canon(a)
    if isinstance(a, tuple) and a:
        if a[0] in ("and", "or"):
            for x in a[1:]:
                _primitive_atoms(x, acc)
            return
        if a[0] in ("not", "impl"):
            _primitive_atoms(a[1], acc)
            return
        if a[0] == "bool":
            return
        if a[0] == "cmp" and a[1] in ("<", "<="):
            # orderings come in complementary pairs: keep one orientation
            neg = sym.neg_atom(a)
            if neg in acc:
                return
    if a not in acc:
        acc.append(a)


def normalize_results(S):
    """Replace opaque call results ('res', id) by a description of the call so that two summaries are comparable."""
    table = {}
    for e in S.events:
        if e.kind == "call" and e.result is not None and isinstance(e.result, tuple) and e.result[0] == "res":
            table[e.result] = e
    memo = {}
    ordinals = {}

    def ordinal(tag, name):
        k = (tag, name)
        if k not in ordinals:
            ordinals[k] = len([x for x in ordinals if x[0] == tag])
        return ordinals[k]

    def norm(v, depth=0):
        if isinstance(v, tuple):
            if v and v[0] == "res":
                if v in memo:
                    return memo[v]
                e = table.get(v)
                if e is None or depth > 6:
                    return ("resof", "?")
                memo[v] = ("resof", e.name, "?")
                out = ("resof", e.name, norm(e.recv, depth + 1) if e.recv is not None else (norm(e.extra, depth + 1) if isinstance(e.extra, tuple) else None),
                       tuple(norm(a, depth + 1) for a in (e.args or ())), tuple(sorted((k, norm(x, depth + 1)) for k, x in (e.kwargs or {}).items())))
                memo[v] = out
                return out
            if v and v[0] == "fld" and len(v) == 4:
                return ("fld", norm(v[1], depth), v[2], 0 if v[3] == 0 else 1)
            if v and v[0] in ("lambda", "opaque") :
                return (v[0],)
            if v and v[0] == "loopmix":
                return ("loopmix",) + tuple(norm(x, depth) for x in v[3:])
            if v and v[0] == "loopval":
                return ("loopval", norm(v[3], depth) if isinstance(v[3], tuple) else v[3])
            if v and v[0] in ("wl", "wlout", "lc") and len(v) >= 3:
                return (v[0], ordinal(v[0] if v[0] != "wlout" else "wl", v[1])) + tuple(norm(x, depth) for x in v[3:])
            if v and v[0] == "raised":
                return ("raised", v[2])
            return tuple(norm(x, depth) for x in v)
        if isinstance(v, frozenset):
            return frozenset(norm(x, depth) for x in v)
        return v

    return norm


class Behaviour(object):
    def __init__(self, S, observe_self_fields=True):
        self.S = S
        self.norm = normalize_results(S)
        self.effects = []
        fnq = S.fn.qual
        for e in S.events:
            if e.kind == "write":
                if e.obj[0] == "attr" and e.field == "writeable":
                    continue
                self.effects.append(("write", e))
            elif e.kind == "store":
                self.effects.append(("store", e))
            elif e.kind == "call":
                if e.inlined:
                    continue
                if e.extra == "new":
                    continue
                self.effects.append(("call", e))
            elif e.kind == "raise":
                self.effects.append(("raise", e))
        self.exits = S.exits
        self.raises = S.raises

    def atoms(self):
        acc = []
        for _, e in self.effects:
            for a, p in e.guard:
                _primitive_atoms(self.norm(a), acc)
        for st, rv in self.exits:
            for a, p in st.guard:
                _primitive_atoms(self.norm(a), acc)
            self._value_atoms(rv, acc)
        for _, e in self.effects:
            for v in self._effect_values(e):
                self._value_atoms(v, acc)
        return acc

    def _value_atoms(self, v, acc, depth=0):
        if isinstance(v, tuple) and v and depth < 8:
            if v[0] == "ite":
                _primitive_atoms(self.norm(v[1]), acc)
                self._value_atoms(v[2], acc, depth + 1)
                self._value_atoms(v[3], acc, depth + 1)
            elif v[0] in ("+", "-", "*", "/", "neg", "tuple", "not", "and", "or", "cmp"):
                for x in v[1:]:
                    self._value_atoms(x, acc, depth + 1)

    def _effect_values(self, e):
        if e.kind == "write":
            return [e.value]
        if e.kind == "store":
            return [e.index, e.value]
        if e.kind == "call":
            return list(e.args or []) + list((e.kwargs or {}).values())
        return []

    def evaluate(self, g):
        """Behaviour under the saturated literal set g: (return value or 'raise'/'?', [effect signatures])."""
        ret = None
        for st, rv in self.exits:
            if self._holds(st.guard, g):
                ret = ("return", canon(sym.restrict(self.norm(rv), g)))
                break
        effs = []
        for kind, e in self.effects:
            if not self._holds(e.guard, g):
                continue
            loops = tuple((canon(self.norm(l.iter)) if not l.is_while else ("while",), tuple(sorted((canon(self.norm(a)), p) for a, p in l.filter))) for l in e.loops)
            r = lambda v: canon(sym.restrict(self.norm(v), g)) if v is not None else None
            if kind == "write":
                effs.append(("write", loops, r(e.obj), e.field, r(e.value)))
            elif kind == "store":
                effs.append(("store", loops, r(e.base), r(e.index), e.aug, r(e.value)))
            elif kind == "call":
                tgt = r(e.recv) if e.recv is not None else (r(e.extra) if isinstance(e.extra, tuple) else None)
                effs.append(("call", loops, tgt, e.name, tuple(r(a) for a in (e.args or ())), tuple(sorted((k, r(v)) for k, v in (e.kwargs or {}).items()))))
            elif kind == "raise":
                effs.append(("raise", loops, e.exc))
        if ret is None:
            ret = ("raise",) if any(k == "raise" for k, *_ in effs) else ("?",)
        return ret, effs

    def _holds(self, guard, g):
        for a, p in guard:
            if isinstance(a, tuple) and a and a[0] == "impl":
                continue
            if not sym.lit_holds(g, self.norm(a), p):
                return False
        return True


def _const_eq(a):
    """(expr canon, const) if atom says expr == const."""
    if a[0] == "zero":
        return (a[1], 0)
    if a[0] == "cmp" and a[1] == "==":
        r = sym.to_rat(a[2])
        # d == 0 with d = x - c
        if len(r.num) == 2 and () in r.num:
            c = r.num[()]
            rest = {m: k for m, k in r.num.items() if m != ()}
            (m, k), = rest.items()
            if len(m) == 1 and m[0][1] == 1:
                from fractions import Fraction

                val = -c / k
                expr = sym.Rat({m: Fraction(1)}).canon()
                return (sym._abs_norm(sym.Rat({m: Fraction(1)})), ("c", val))
    return None


def feasible(assign):
    """Cheap arithmetic consistency: an expression cannot equal two different constants."""
    vals = {}
    for a, p in assign:
        if not p:
            continue
        ce = _const_eq(a)
        if ce is None:
            continue
        k, c = ce
        if a[0] == "zero":
            c = ("c", 0)
        if k in vals and vals[k] != c:
            return False
        vals[k] = c
    return True


def compare(S_code, S_ref, limit=14, ignore_fields=()):
    """Return (n_assignments, differences[:k]) - differences are (assignment, what, code, ref)."""
    A, B = Behaviour(S_code), Behaviour(S_ref)
    atoms = []
    for a in A.atoms() + B.atoms():
        if a not in atoms:
            atoms.append(a)
    if len(atoms) > limit:
        return -len(atoms), [((), "too-many-atoms", len(atoms), limit)]
    diffs = []
    n = 0
    for bits in itertools.product((True, False), repeat=len(atoms)):
        assign = tuple(zip(atoms, bits))
        if not feasible(assign):
            continue
        g = sym.sat(assign)
        if sym.inconsistent(g):
            continue
        n += 1
        ra, ea = A.evaluate(g)
        rb, eb = B.evaluate(g)
        ea = [x for x in ea if not (x[0] == "write" and x[3] in ignore_fields)]
        eb = [x for x in eb if not (x[0] == "write" and x[3] in ignore_fields)]
        if ra != rb:
            diffs.append((assign, "return", ra, rb))
        elif ea != eb:
            # report the first differing effect
            k = 0
            while k < min(len(ea), len(eb)) and ea[k] == eb[k]:
                k += 1
            diffs.append((assign, "effect#%d" % k, ea[k] if k < len(ea) else None, eb[k] if k < len(eb) else None))
        if len(diffs) >= 3:
            break
    return n, diffs


def fmt_assign(assign):
    return sym.fmt_guard([(a, p) for a, p in assign])
