"""Debug helper: print the summary of a function.  usage: python -m btlint.dump bt/core.py SecurityBase update [host]"""
import sys
from .source import Program
from .evalfn import Evaluator
from . import sym

def main():
    mod, cls, name = sys.argv[1:4]
    host = sys.argv[4] if len(sys.argv) > 4 else None
    prog = Program()
    fn = prog.func(mod, None if cls == "-" else cls, name)
    ev = Evaluator(prog)
    s = ev.summarize(fn, host)
    for e in s.events:
        print(e.seq, [l.node.lineno for l in e.loops], e)
    print("EXITS")
    for st, rv in s.exits:
        print("  guard:", sym.fmt_guard(st.guard))
        print("  ret:", sym.fmt(rv))
        for k, v in st.heap.items():
            print("    %s.%s = %s" % (sym.fmt(k[0]), k[1], sym.fmt(v)))
        for k, v in st.locals.items():
            print("    local %s = %s" % (k, sym.fmt(v)))
    print("unsupported:", s.unsupported)

main()
