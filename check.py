import sys; sys.exit(2)
