#!/venv/bin/python
"""/verif/check.py <Cnn> [--tier quick|thorough] [--replay <path>]

Static analysis of /repo's current working tree (nothing of bt is imported or executed).
exit 0: every rule instance of the property held (listed known findings are printed);
exit 1: VIOLATION lines for violations not listed in known_findings.json;
exit 2: ANALYSIS-ERROR (an anchor vanished or a construct is not understood) - never a silent pass.
"""
import json
import os
import sys
import time
import traceback

HERE = os.path.dirname(os.path.abspath(__file__))
sys.path.insert(0, HERE)

from btlint import registry  # noqa: E402
from btlint.report import Check, load_known  # noqa: E402
from btlint.source import AnalysisError, Program  # noqa: E402


def run(pid, tier, replay=None, repo=None, quiet=False, write=True):
    t0 = time.time()
    seed = int(os.environ.get("VERIF_SEED", "0") or 0)
    out = []
    chk = None
    audit = None
    aerr = None
    try:
        prog = Program() if repo is None else Program(repo)
        chk = Check(pid, prog, tier=tier, inline_depth=6 if tier == "quick" else 8)
        registry.run_property(pid, chk)
    except AnalysisError as e:
        aerr = "ANALYSIS-ERROR property=%s %s" % (pid, e)
    except Exception:
        aerr = "ANALYSIS-ERROR property=%s internal error: %s" % (pid, traceback.format_exc().strip().splitlines()[-1])
        traceback.print_exc(file=sys.stderr)
    if aerr is not None and (chk is None or not chk.violations):
        print(aerr)
        return 2
    known = load_known()
    listed = {(k["rule"], k["module"], k["host"], k["key"]): k for k in known.get("findings", []) if k.get("property") == pid}
    new, seen_known = [], []
    for v in chk.violations:
        if v.ident() in listed:
            seen_known.append(v)
        else:
            new.append(v)
    if replay:
        want = json.load(open(replay))
        new = [v for v in new if [v.rule, v.module, v.host, v.key] == want.get("ident")]
    vdir = os.path.join(HERE, "evidence", "violations")
    for v in seen_known:
        print("KNOWN-FINDING: property=%s rule=%s %s %s: %s" % (pid, v.rule, v.where or v.module, v.host, v.message))
    code = 0
    for i, v in enumerate(new):
        os.makedirs(vdir, exist_ok=True)
        path = os.path.join(vdir, "%s-%d.json" % (pid, i))
        d = v.to_json()
        d["ident"] = [v.rule, v.module, v.host, v.key]
        d["property"] = pid
        with open(path, "w") as f:
            json.dump(d, f, indent=1)
        print("VIOLATION property=%s replay=%s" % (pid, path))
        print("  rule=%s at %s in %s: %s" % (v.rule, v.where or v.module, v.host, v.message))
        if v.expected is not None:
            print("    expected: %s" % v.expected)
        if v.found is not None:
            print("    found:    %s" % v.found)
        code = 1
    if aerr is not None:
        # violations were already established before the analysis gave up: report them, and the error
        print(aerr)
        if code == 0:
            return 2
    if tier == "thorough" and replay is None:
        if new:
            # the self-test (silence on behaviour-preserving variants, sensitivity on seeded changes) is a statement about the checker on a tree that
            # satisfies the property; on a tree that violates it every variant violates it too
            print("AUDIT-NOTE property=%s self-test skipped: the tree itself violates the property" % pid)
        else:
            try:
                from btlint import audit as audit_mod

                audit = audit_mod.run_audit(pid, seed)
            except Exception:
                print("ANALYSIS-ERROR property=%s internal error in the self-test: %s" % (pid, traceback.format_exc().strip().splitlines()[-1]))
                traceback.print_exc(file=sys.stderr)
                return 2
    if audit is not None:
        for line in audit.get("lines", []):
            print(line)
        if audit.get("failed"):
            print("ANALYSIS-ERROR property=%s audit failed: %s" % (pid, audit["failed"]))
            code = code or 2
    wall = time.time() - t0
    if write and not replay and not os.environ.get("BT_NO_EVIDENCE"):
        ev = {
            "property_id": pid,
            "tier": tier,
            "seed": seed,
            "level": "other",
            "wall_s": round(wall, 3),
            "violations": len(new),
            "coverage": {
                "explanation": " ".join(chk.explanations) or "static rule set for %s" % pid,
                "obligations": chk.obligations,
                "discharged": chk.discharged,
                "evaluations": max(chk.obligations, 1),
                "distinct_nontrivial": len(chk.distinct),
                "rule": "one obligation per rule instance (rule id, host function, construct); distinct = distinct (rule, module, host, construct-key) tuples; "
                        "all are non-trivial by construction: each names a construct found in /repo's source on this run",
                "samples": chk.samples[:12] or [{"note": "no sample recorded"}],
                "exhaustive": True,
                "functions_analysed": sorted(chk.functions),
                "rule_instances": chk.rules,
                "floor_counts": chk.floor,
                "known_findings_seen": [v.to_json() for v in seen_known],
                "notes": chk.notes,
                "checker_cmd": "/venv/bin/python /verif/check.py %s --tier %s" % (pid, tier),
                "trusted_base": ["python ast", "btlint engine (gated value graph, algebra, effect summaries)", "pandas indexing model stated in assumptions"],
            },
            "assumptions": chk.assumptions,
        }
        if audit is not None:
            ev["coverage"]["audit"] = audit.get("summary")
        os.makedirs(os.path.join(HERE, "evidence"), exist_ok=True)
        with open(os.path.join(HERE, "evidence", "%s.json" % pid), "w") as f:
            json.dump(ev, f, indent=1, default=str)
    if not quiet:
        print("%s: %d obligations, %d discharged, %d new violations, %d known findings, %.2fs" % (pid, chk.obligations, chk.discharged, len(new), len(seen_known), wall))
    return code


def main(argv):
    if len(argv) < 2:
        print(__doc__)
        return 2
    pid = argv[1]
    tier = os.environ.get("VERIF_TIER") or "quick"
    replay = None
    i = 2
    while i < len(argv):
        if argv[i] == "--tier":
            tier = os.environ.get("VERIF_TIER") or argv[i + 1]
            i += 2
        elif argv[i] == "--replay":
            replay = argv[i + 1]
            i += 2
        else:
            i += 1
    return run(pid, tier, replay)


if __name__ == "__main__":
    sys.exit(main(sys.argv))
