#!/bin/bash
# usage: tryb.sh <benign id> props...
b=$1; shift
rm -rf /tmp/dbg && mkdir /tmp/dbg && git -C /repo archive HEAD bt setup.py | tar -x -C /tmp/dbg && git apply --unsafe-paths --directory /tmp/dbg ${BSTAGE:-/verif/benign}/$b/patch.diff
cd /verif
for p in "$@"; do BT_REPO=/tmp/dbg BT_NO_EVIDENCE=1 /venv/bin/python check.py $p 2>&1 | grep -A4 "rule=\|^C\|ANALYSIS" | grep -v "^VIOLATION\|^--" | cut -c1-400 | head -${LINES_MAX:-40}; done
