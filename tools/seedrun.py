#!/venv/bin/python
"""Run the checks against seeded mutants without touching /repo: each patch is applied to a scratch
copy of /repo's tracked sources under /tmp and the check is pointed at it through BT_REPO.

usage: seedrun.py <dir with */patch.diff ...> [--props C01,C02 | --all] [--own]
  default: each mutant <Cxx>/... is run against its own property check; --all runs all 20 checks.
"""
import json
import os
import shutil
import subprocess
import sys
import tempfile
from concurrent.futures import ThreadPoolExecutor

VERIF = os.path.dirname(os.path.dirname(os.path.abspath(__file__)))
PROPS = ["C%02d" % i for i in range(1, 21)]


def find(root):
    out = []
    for d, _, files in os.walk(root):
        if "patch.diff" in files:
            out.append(d)
    return sorted(out)


def prop_of(path):
    for part in path.split(os.sep):
        for p in PROPS:
            if p in part:
                return p
    return None


def run_one(mdir, props):
    tmp = tempfile.mkdtemp(prefix="seedrun_")
    try:
        subprocess.check_call("git -C /repo archive HEAD bt setup.py | tar -x -C %s" % tmp, shell=True)
        r = subprocess.run(["git", "apply", "--unsafe-paths", "--directory", tmp, os.path.join(mdir, "patch.diff")], cwd="/", capture_output=True, text=True)
        if r.returncode != 0:
            r = subprocess.run("cd %s && patch -p1 -s < %s" % (tmp, os.path.join(mdir, "patch.diff")), shell=True, capture_output=True, text=True)
            if r.returncode != 0:
                return mdir, {"error": "patch does not apply: " + r.stderr[:200]}
        res = {}
        env = dict(os.environ, BT_REPO=tmp, BT_NO_EVIDENCE="1")
        for p in props:
            r = subprocess.run(["/venv/bin/python", os.path.join(VERIF, "check.py"), p], env=env, capture_output=True, text=True)
            lines = [l for l in r.stdout.splitlines() if l.startswith("  rule=") or l.startswith("ANALYSIS-ERROR")]
            res[p] = (r.returncode, lines)
        return mdir, res
    finally:
        shutil.rmtree(tmp, ignore_errors=True)


def main():
    root = sys.argv[1]
    allp = "--all" in sys.argv
    props = None
    for i, a in enumerate(sys.argv):
        if a == "--props":
            props = sys.argv[i + 1].split(",")
    muts = find(root)
    jobs = []
    for m in muts:
        own = prop_of(m)
        ps = PROPS if allp else (props or [own])
        jobs.append((m, ps))
    with ThreadPoolExecutor(16) as ex:
        results = list(ex.map(lambda j: run_one(*j), jobs))
    for m, res in results:
        own = prop_of(m)
        if "error" in res:
            print("%-40s ERROR %s" % (os.path.relpath(m, root), res["error"]))
            continue
        fired = [p for p, (c, _) in res.items() if c == 1]
        broken = [p for p, (c, _) in res.items() if c not in (0, 1)]
        status = "CAUGHT" if own in fired else ("analysis-error" if own in broken else "missed")
        print("%-40s %-14s fired=%s%s" % (os.path.relpath(m, root), status, ",".join(fired), (" broken=" + ",".join(broken)) if broken else ""))
        for p, (c, lines) in res.items():
            for l in lines[:4]:
                print("      [%s] %s" % (p, l.strip()[:230]))


main()
