#!/venv/bin/python
"""Regenerate MANIFEST.json from the rule modules that exist (claimed) and the NA table (not claimed)."""
import json
import os
import sys

VERIF = os.path.dirname(os.path.dirname(os.path.abspath(__file__)))
sys.path.insert(0, VERIF)

CLAIMS = {
    "C01": ("proof-style inductive shape argument, statically: (1) each `update` establishes value = cash + children resp. position x price x multiplier, child weights and the per-date rows (gated value graph vs reference model in algebraic normal form); (2) the flat-security shortcut's typestate; (3) every mutator of primary state marks the tree stale or sits in a deferred-update bracket closed by a refresh of the ROOT; every accessor of derived state refreshes first. Decides these structural clauses for all inputs and histories; does not decide floating-point equality or user code that defers updates and never refreshes.",
            "T-ALG + T-PAIR + T-DEFER + T-SIB over bt/core.py (gated value graph, rational normal form, role-relative effect summaries)", "5/C01"),
    "C02": ("the four places value could be created or destroyed, statically: trade cash = minus the full outlay of exactly the traded quantity; parent/child capital transfer balanced on every path; coupon sweep credit = debit under one gate; cash and positions have enumerated writers only. The day-by-day reconciliation is the composition of these clauses with C01 and is argued, not computed.",
            "T-ALG + T-OWN + T-PAIR (reference-model comparison in normal form; who-may-write scan of every attribute store)", "5/C02"),
    "C03": ("index recurrence price = last_price x value / (last_value + net_flows) in normal form under its zero-base guards; snapshot/reset set under the date-change literal evaluated on the pre-update clock; flow accumulator write kinds; flow flag at every adjust() call site of the program; PAR, initial price, initial capital before the first update on the synthetic row. Scale/flow invariance as relations between runs are not decided.",
            "T-ALG + T-CD + T-OWN + T-CALL", "5/C03"),
    "C04": ("exhaustive extent analysis: every value reaching a sink of every stock algo is classified FULL/WINDOWED/ROW/INDEX/POS and every use of a FULL object must be a now-bounded access; positional reads use the location of now in the same index; the universe accessor is windowed with enumerated cache writers; core reads input data only at the current row; the date loop feeds one date at a time. Sound for all data sets and cut dates within the stated model of pandas indexing.",
            "T-EXT extent/taint classification over the gated value graph of all 50 algo __call__ bodies and the update family", "5/C04"),
    "C05": ("structure of SecurityBase.allocate: zero amount no-op; price/parent guards dominate sizing; initial quantity (close-out shortcut, direction-dependent rounding) equals a reference in normal form; the sizing loop is bypassed only on the close-out condition; loop test and break condition are the orderings the budget needs, evaluated on the cost of the current q and of q+1; traded quantity is the loop's result; outlay is pure and shared with the booking. Convergence/optimality of the search is not decided.",
            "T-DOM + T-ALG + loop-summary analysis (test, break guard, carried values) of the sizing loop", "5/C05"),
    "C06": ("Rebalance captures its base once before holdings change (reference model), closes exactly non-target children with non-zero value, rebalances every target against that base deferred, refreshes the root; StrategyBase.rebalance sends weight x base minus the child's current holding; close/flatten amounts read after the child's own flatten through accessors; spread by child weight; RebalanceOverTime step target and countdown. 'Within one trading unit plus costs' is numeric and not decided.",
            "T-ORD (entry-version analysis) + T-ALG + T-CALL + T-DEFER", "5/C06"),
    "C07": ("outlay() four components in normal form (both price modes); transact books fee-free outlay and passes minus full outlay with fee and flow=False to the security's own parent, once; fee/flow accumulators: write kinds, reset on date change, rows unconditional; outlay flush-and-reset; commission from the parent and set_commissions recursion; outlay pure. The ledger equation over multi-trade histories is the composition, argued not computed.",
            "T-ALG + T-CALL + T-OWN + T-PAIR", "5/C07"),
    "C08": ("date-change guards on the pre-update clock; security shortcut only when date and position unchanged; the only non-idempotent writes are flush-and-reset pairs; every accessor classified by effect analysis performs the refresh it needs at the root's clock and slices to now; raw reads of another node's derived state only at enumerated sites; every in-place history write indexes inow; deferred-update brackets closed; the date loop updates unconditionally after run.",
            "T-CD + T-SIB (effect-analysis classification of 37 accessors) + T-PAIR + T-DEFER", "5/C08"),
    "C09": ("necessary structure of the shadow mechanism: plain deepcopy, re-rooted, set up with original data, funded as a flow with a notional equal to Backtest's default capital; stepped update-run-update on every new date unconditionally like the stand-alone loop; price and price row copied from the shadow; published into the parent's universe; settings pushed before shadows are copied. Equality of the two index series is a relation between runs: not decided.",
            "T-CD + T-ORD + T-TAB + sequence agreement between two call sequences", "5/C09"),
    "C10": ("one dominating guard per enumerated ill-formed class; every division of the accounting engine guarded (path conditions of the gated value graph); iteration cap on every cycle of the sizing loop; in-place history writes go through a view made writable under the installed pandas. 'Every well-formed backtest completes with finite numbers' is not decidable statically and is not claimed.",
            "T-DOM + guarded-division scan + loop-summary + T-RO with environment facts from installed metadata", "5/C10"),
    "C11": ("escape analysis: template flows only into deepcopy, nothing called on / written to it; data never written; additional data copied; universes are copies made in setup; children copied before renamed/re-parented; has_run gate; no set iteration order reaches a stored/returned/sampled sequence. Equality of results across processes needs runs and is not decided.",
            "T-ESC + T-ORD + T-SETORD (AST scan of every set construction)", "5/C11"),
    "C16": ("flag set at one site under exactly root / negative value (sign region) / not fixed income / not already bankrupt, cleared only at construction and setup; same branch flattens; flatten reaches every child, allocate spreads to descendants, close-out quantity exactly minus the position; values re-read through accessors after liquidation; date loop gates run() on the flag and keeps updating. Constancy of value after liquidation composes with C01/C02 and is not computed.",
            "T-CD + T-OWN + sign-region comparison + T-ORD", "5/C16"),
    "C17": ("notional per node class (field and row); coupon/holding-cost accrual formulas with long/short schedule and NaN guard; sweep before child update on a new date; additive index PAR x pnl / notional with both fallbacks; notional-based rebalance branches and Rebalance base selection; SetNotional row at now; transact spread by weight; renormalised result formula.",
            "T-SIB (notional table over 6 update overrides) + T-ALG + T-ORD", "5/C17"),
    "C19": ("child registration pairs and inheritance of root / position mode from the attaching node; duplicate names raise; push-down recursions reach all children with the same argument and run at construction; lazy child created, attached, set up, caught up before lookup; universe = declared tickers present in the data in data order (all if none) plus a NaN column per sub-strategy published on every update; dynamic children.",
            "T-DOM + T-PAIR + recursion-completeness + T-ORD", "5/C19"),
    "C12": ("RunPeriod position logic (unknown date, pre-start row, first, last, neighbour offset by mode); each comparator's key is a consistent calendar key for its period, compared on both arguments; counting/date schedulers as small state machines compared with reference models. Behaviour on concrete indices follows only under pandas' calendar definitions (assumed).",
            "T-DOM + T-TAB (period-key table) + T-ALG on scheduler state machines", "5/C12"),
    "C13": ("control-flow shapes: AlgoStack plain mode (in order, False at first failure) and run_always mode (each algo called at most once per pass, failed ones only if flagged); Strategy.run clears temp, runs the stack, then each child once; perm written only at construction; Or runs every branch without short-circuit; Not; Require; RunIfOutOfBounds deviation formula.",
            "T-CD + call-multiplicity per loop iteration + T-OWN", "5/C13"),
    "C14": ("tradability provenance of temp['selected'] in the six filtering algos (row at now, notna, strictly positive) on both flag paths; windows of SelectHasData / StatTotalReturn / SetStat; SelectN ranking pipeline compared with a reference model; refining filters keep the prior selection. ffn's total return and sort tie-breaking are not decided.",
            "T-PROV (filter provenance) + T-EXT windows + reference-model comparison", "5/C14"),
    "C15": ("own arithmetic of the weighting algos vs reference models; windows end at now - lag; documented ffn callee with constructor parameters passed through; empty/single selections short-circuit; algos do not overwrite their constructor parameters nor hand out their own configuration object. Everything ffn/sklearn compute is third-party numerics and is not decided.",
            "T-ALG + T-CALL + T-IMMUT + T-ESC(copy-out)", "5/C15"),
    "C18": ("report formulas vs reference models (weights, security weights incl. aggregation on name collision and the fixed-income switch on the ROOT, herfindahl, turnover, Result prices, get_transactions incl. bid/offer adjustment); aggregation-on-collision in every per-name table; ReplayTransactions window and bracket. Replay round-trip and ffn statistics are not decided.",
            "T-ALG + T-PAIR + T-EXT", "5/C18"),
    "C20": ("UpdateRisk security/strategy risk formulas and history depth; HedgeRisks target risk = target + optional strategy, Jacobian entries from the same unit-risk source at the location of now, notionals from the (pseudo-)inverse sent to transact; close/roll once-only bookkeeping with aggregation per roll target and deferred-update brackets; SelectActive removes rolled and closed.",
            "T-ALG + writer/reader agreement + T-PAIR + T-DEFER", "5/C20"),
}

NOTE = ("trusted base: python ast; the btlint engine (gated value graph, rational-function algebra, role-relative effect summaries, extent classifier); class-hierarchy receiver typing by role; "
        "bt/core.py is the single source of the interpreted and the Cython build, effects of the C compiler / typed locals are outside the claim; pandas indexing model and ffn/numpy purity as stated in the evidence assumptions")


def main():
    props = [json.loads(l) for l in open(os.path.join(VERIF, "properties.jsonl"))]
    built = [p["id"] for p in props if os.path.exists(os.path.join(VERIF, "btlint", "rules", p["id"].lower() + ".py"))]
    m = {
        "version": 1,
        "setup_cmd": "/venv/bin/python -m compileall -q /verif/btlint /verif/check.py",
        "hooks": {
            "guard": "BT_VERIF",
            "enable": "none: the checks are static analyses of /repo's source text and need no instrumentation; BT_VERIF is reserved and unused",
            "baseline_off_cmd": "cd /repo && /venv/bin/python -m pytest -ra -q -p no:cacheprovider --timeout=900 --continue-on-collection-errors",
            "source_commits": [],
            "add_only": True,
        },
        "engines": [{"name": "btlint", "path": "/verif/btlint", "serves_properties": built,
                     "kind_free_text": "purpose-built static analyser on the standard library's ast: per-function gated value graph (structured walk, phi nodes, loop summaries), "
                                       "canonical rational-function algebra, must-hold guard literals with unit propagation, role-relative effect summaries, extent/provenance "
                                       "classifier, reference-model comparison; nothing of bt is imported or executed"}],
        "checks": [],
        "notes": "Every claimed check decides structural clauses that are necessary for its property and says so in level_claimed.text; the not-decided clauses are listed per property in "
                 "DESIGN.md section 5 and in each evidence file's assumptions. Genuine defects found and repaired are listed in known_findings.json (fixed:).",
        "not_applicable": [],
    }
    for p in props:
        pid = p["id"]
        if pid in built and pid in CLAIMS:
            text, tech, ref = CLAIMS[pid]
            m["checks"].append({
                "property_id": pid,
                "quick_cmd": "/venv/bin/python /verif/check.py %s --tier quick" % pid,
                "thorough_cmd": "/venv/bin/python /verif/check.py %s --tier thorough" % pid,
                "evidence_file": "/verif/evidence/%s.json" % pid,
                "replay_cmd_template": "/venv/bin/python /verif/check.py %s --replay {path}" % pid,
                "engine": "btlint",
                "level_claimed": {"category": "other", "text": "static analysis: " + text, "design_ref": "DESIGN.md " + ref},
                "level_note": NOTE,
                "technique": "static analysis: " + tech,
            })
        else:
            m["not_applicable"].append({"property_id": pid, "reason": "static rule set under construction (DESIGN.md %s); not claimed until built and audited" % CLAIMS.get(pid, ("", "", "5"))[2]})
    json.dump(m, open(os.path.join(VERIF, "MANIFEST.json"), "w"), indent=1)
    print("claimed:", [c["property_id"] for c in m["checks"]])
    print("not claimed:", [c["property_id"] for c in m["not_applicable"]])


main()
