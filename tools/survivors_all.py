#!/venv/bin/python
"""For every property: generated mutants of its anchor functions that NO property's quick check reports.
Two phases: own property first, then the survivors against all other properties."""
import ast, difflib, os, sys
sys.path.insert(0, os.path.dirname(os.path.dirname(os.path.abspath(__file__))))
from concurrent.futures import ProcessPoolExecutor
from btlint import audit_ops
from btlint.source import load_sources

PIDS = ["C%02d" % i for i in range(1, 21)]
only = sys.argv[1:] or PIDS
sources = load_sources()
seen = {}
for pid in only:
    for module, cls, name in audit_ops.ANCHORS[pid]:
        tree = ast.parse(sources[module])
        fn = audit_ops._find_func(tree, cls, name)
        if fn is None:
            continue
        for op, idx in audit_ops.mutation_sites(fn):
            key = "%s.%s:%s@%d" % (cls, name, op, idx)
            if key in seen:
                seen[key][0].append(pid)
                continue
            src = audit_ops.make_mutant(sources, module, cls, name, op, idx)
            if src is None:
                continue
            base = ast.unparse(ast.parse(sources[module])).splitlines()
            mut = src[module].splitlines()
            diff = [l for l in difflib.unified_diff(base, mut, lineterm="", n=0) if (l.startswith("+") or l.startswith("-")) and not l.startswith(("+++", "---"))]
            seen[key] = ([pid], src, " || ".join(d.strip()[:120] for d in diff[:4]))
jobs = [(pid, key + "##" + pid, src) for key, (pids, src, _) in seen.items() for pid in pids]
with ProcessPoolExecutor(14) as ex:
    res = list(ex.map(audit_ops._job, jobs, chunksize=2))
caught = set()
for n, st, info in res:
    if st != "ok":
        caught.add(n.split("##")[0])
surv = [k for k in seen if k not in caught]
print("phase 1: %d mutants, %d not reported by an owning property" % (len(seen), len(surv)), flush=True)
jobs = [(pid, key + "##" + pid, seen[key][1]) for key in surv for pid in PIDS if pid not in seen[key][0]]
with ProcessPoolExecutor(14) as ex:
    res = list(ex.map(audit_ops._job, jobs, chunksize=2))
by = {}
for n, st, info in res:
    k, p = n.split("##")
    if st != "ok":
        by.setdefault(k, []).append(p)
n = 0
for k in surv:
    if k in by:
        continue
    n += 1
    print("UNCAUGHT %-55s owners=%s  %s" % (k, ",".join(seen[k][0]), seen[k][2]))
print("total %d, caught by owner %d, by another property %d, by none %d" % (len(seen), len(seen) - len(surv), len(surv) - n, n))
