import sys
sys.path.insert(0, "/verif")
from concurrent.futures import ProcessPoolExecutor
from btlint import audit_ops
from btlint.source import load_sources
only = sys.argv[1:] 
src = load_sources()
variants = audit_ops.benign_variants(src)
if only:
    variants = [v for v in variants if any(o in v[0] for o in only)]
jobs = []
for name, s in variants:
    for i in range(1, 21):
        jobs.append(("C%02d" % i, name, s))
with ProcessPoolExecutor(16) as ex:
    res = list(ex.map(audit_ops._job, jobs, chunksize=1))
bad = 0
for (pid, name, _), (n, st, info) in zip(jobs, res):
    if st != "ok":
        bad += 1
        print(pid, "|", name, "|", st, "|", "; ".join(info)[:400])
print("runs", len(jobs), "noisy", bad)
