#!/venv/bin/python
"""Confirm seeded mutants against /repo HEAD in scratch copies under /tmp (never touches /repo):
demo passes on the clean tree, patch applies, the full test suite passes with the patch (pure-Python
import of bt.core), demo fails with the patch.  usage: verify_seeds.py <dir with */patch.diff> [--build]"""
import json
import os
import shutil
import subprocess
import sys
import tempfile
from concurrent.futures import ThreadPoolExecutor


def sh(cmd, cwd, timeout=900):
    r = subprocess.run(cmd, shell=True, cwd=cwd, capture_output=True, text=True, timeout=timeout)
    return r.returncode, (r.stdout + r.stderr)[-1500:]


def one(mdir):
    tmp = tempfile.mkdtemp(prefix="seedverify_")
    res = {"dir": mdir}
    try:
        subprocess.check_call("git -C /repo archive HEAD | tar -x -C %s" % tmp, shell=True)
        demo = os.path.join(mdir, "demo.py")
        c, out = sh("/venv/bin/python %s" % demo, tmp)
        res["demo_clean"] = c
        res["demo_clean_out"] = out[-300:]
        c, out = sh("git init -q . && git apply --whitespace=nowarn %s" % os.path.join(mdir, "patch.diff"), tmp)
        if c != 0:
            c, out = sh("patch -p1 -s --no-backup-if-mismatch < %s" % os.path.join(mdir, "patch.diff"), tmp)
        res["applies"] = c == 0
        if c != 0:
            res["apply_out"] = out[-300:]
            return res
        c, out = sh("/venv/bin/python -m pytest -q -x -p no:cacheprovider tests 2>&1 | tail -3", tmp)
        res["tests"] = out.strip().splitlines()[-1] if out.strip() else "?"
        res["tests_ok"] = " passed" in res["tests"] and "failed" not in res["tests"]
        c, out = sh("/venv/bin/python %s" % demo, tmp)
        res["demo_mutant"] = c
        res["demo_mutant_out"] = out[-300:]
        if "--build" in sys.argv:
            c, out = sh("/venv/bin/python setup.py build_ext --inplace > /dev/null 2>&1; /venv/bin/python -m pytest -q -x -p no:cacheprovider tests 2>&1 | tail -1; /venv/bin/python %s > /dev/null 2>&1; echo demo_exit=$?" % demo, tmp, timeout=1800)
            res["compiled"] = out.strip().splitlines()[-2:]
        return res
    finally:
        shutil.rmtree(tmp, ignore_errors=True)


def main():
    root = sys.argv[1]
    dirs = sorted(d for d, _, f in os.walk(root) if "patch.diff" in f)
    with ThreadPoolExecutor(12) as ex:
        results = list(ex.map(one, dirs))
    for r in results:
        ok = r.get("demo_clean") == 0 and r.get("applies") and r.get("tests_ok") and r.get("demo_mutant", 0) != 0
        print("%-34s %s clean_demo=%s applies=%s tests=%s mutant_demo=%s %s" % (os.path.relpath(r["dir"], root), "OK  " if ok else "FAIL", r.get("demo_clean"), r.get("applies"),
                                                                              r.get("tests"), r.get("demo_mutant"), r.get("compiled", "")))
        if not ok:
            for k in ("apply_out", "demo_clean_out"):
                if r.get(k) and (k != "demo_clean_out" or r.get("demo_clean") != 0):
                    print("      %s: %s" % (k, r[k].replace("\n", " | ")[-260:]))
    json.dump(results, open("/tmp/seed_verify.json", "w"), indent=1)


main()
