#!/venv/bin/python
"""Store confirmed seeded mutants under /verif/seeded/<id>/ with patches regenerated against /repo HEAD."""
import json, os, shutil, subprocess, sys, tempfile, re

src_root = sys.argv[1]
round_tag = sys.argv[2] if len(sys.argv) > 2 else "r1"
verify = {os.path.relpath(r["dir"], src_root): r for r in json.load(open("/tmp/seed_verify.json"))} if os.path.exists("/tmp/seed_verify.json") else {}
head = subprocess.run("git -C /repo rev-parse --short HEAD", shell=True, capture_output=True, text=True).stdout.strip()
for d, _, files in sorted(os.walk(src_root)):
    if "patch.diff" not in files:
        continue
    rel = os.path.relpath(d, src_root)
    prop, m = rel.split(os.sep)[:2]
    sid = "%s-%s-%s" % (prop, round_tag, m)
    out = os.path.join("/verif/seeded", sid)
    os.makedirs(out, exist_ok=True)
    tmp = tempfile.mkdtemp(prefix="seedstore_")
    try:
        subprocess.check_call("git -C /repo archive HEAD | tar -x -C %s && cd %s && git init -q . && git add -A && git -c user.email=a@b -c user.name=x commit -q -m base" % (tmp, tmp), shell=True)
        r = subprocess.run("git apply --whitespace=nowarn %s || patch -p1 -s --no-backup-if-mismatch < %s" % (os.path.join(d, "patch.diff"), os.path.join(d, "patch.diff")), shell=True, cwd=tmp)
        diff = subprocess.run("git diff", shell=True, cwd=tmp, capture_output=True, text=True).stdout
        open(os.path.join(out, "patch.diff"), "w").write(diff)
    finally:
        shutil.rmtree(tmp, ignore_errors=True)
    shutil.copy(os.path.join(d, "demo.py"), os.path.join(out, "demo.py"))
    notes = open(os.path.join(d, "notes.md")).read() if os.path.exists(os.path.join(d, "notes.md")) else ""
    open(os.path.join(out, "notes.md"), "w").write(notes)
    first = [l.strip() for l in notes.splitlines() if l.strip() and not l.startswith("#")]
    files_changed = sorted(set(re.findall(r"^\+\+\+ b/(\S+)", diff, re.M)))
    v = verify.get(rel, {})
    meta = {
        "id": sid,
        "property": prop,
        "breaks": (first[0] if first else "")[:500],
        "files_changed": files_changed,
        "needs_to_manifest": "see notes.md (written by the independent sub-agent that produced the change; it saw only the property text and a scratch worktree)",
        "origin": "fresh sub-agent given only the property record and its own scratch git worktree of /repo",
        "confirmed_against_repo_head": head,
        "what_i_ran": [
            "scratch copy of /repo HEAD under /tmp (git archive); /venv/bin/python demo.py -> exit %s (clean tree)" % v.get("demo_clean"),
            "git apply patch.diff -> applies=%s" % v.get("applies"),
            "/venv/bin/python -m pytest -q -x -p no:cacheprovider tests (pure-Python bt.core) -> %s" % v.get("tests"),
            "/venv/bin/python demo.py -> exit %s (with the change)" % v.get("demo_mutant"),
            "/venv/bin/python /verif/tools/seedrun.py ... --all (checks pointed at the patched scratch copy through BT_REPO)",
        ],
    }
    json.dump(meta, open(os.path.join(out, "meta.json"), "w"), indent=1)
    print(sid, files_changed)
