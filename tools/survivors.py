#!/venv/bin/python
"""List generated mutants of a property's anchor functions that its check does not report, with the changed line."""
import ast, difflib, os, sys
sys.path.insert(0, os.path.dirname(os.path.dirname(os.path.abspath(__file__))))
from concurrent.futures import ProcessPoolExecutor
from btlint import audit_ops
from btlint.source import load_sources

pid = sys.argv[1]
other = sys.argv[2:]  # further properties to try on each survivor
sources = load_sources()
jobs = []
meta = {}
for module, cls, name in audit_ops.ANCHORS[pid]:
    tree = ast.parse(sources[module])
    fn = audit_ops._find_func(tree, cls, name)
    if fn is None:
        continue
    for op, idx in audit_ops.mutation_sites(fn):
        src = audit_ops.make_mutant(sources, module, cls, name, op, idx)
        if src is None:
            continue
        key = "%s.%s:%s@%d" % (cls, name, op, idx)
        base = ast.unparse(ast.parse(sources[module])).splitlines()
        mut = src[module].splitlines()
        diff = [l for l in difflib.unified_diff(base, mut, lineterm="", n=0) if (l.startswith("+") or l.startswith("-")) and not l.startswith(("+++", "---"))]
        meta[key] = " || ".join(d.strip()[:110] for d in diff[:4])
        jobs.append((pid, key, src))
        for o in other:
            jobs.append((o, key + "##" + o, src))
with ProcessPoolExecutor(16) as ex:
    res = list(ex.map(audit_ops._job, jobs, chunksize=2))
status = {n: st for n, st, _ in res}
tot = surv = 0
for n, st, info in res:
    if "##" in n:
        continue
    tot += 1
    if st == "ok":
        surv += 1
        others = [o for o in other if status.get(n + "##" + o) == "violation"]
        print("SURVIVED %-55s %s   %s" % (n, ("[caught by %s]" % ",".join(others)) if others else "", meta[n]))
    elif st == "analysis-error":
        print("ANALYSIS-ERROR %-50s %s  %s" % (n, info[0][:80], meta[n]))
print("total %d survivors %d" % (tot, surv))
