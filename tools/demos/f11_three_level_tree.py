import sys, os; sys.path.insert(0, os.getcwd())
import numpy as np, pandas as pd, bt
print(bt.__file__)
idx = pd.date_range("2020-01-01", periods=30, freq="B")
rng = np.random.RandomState(0)
data = pd.DataFrame({"a": 100*np.cumprod(1+0.01*rng.randn(30)), "b": 100*np.cumprod(1+0.01*rng.randn(30))}, index=idx)
def algos(): return [bt.algos.RunMonthly(run_on_first_date=True), bt.algos.SelectAll(), bt.algos.WeighEqually(), bt.algos.Rebalance()]
leaf = bt.Strategy("leaf", algos(), children=["a", "b"])
mid = bt.Strategy("mid", algos(), children=[leaf])
root = bt.Strategy("root", algos(), children=[mid])
t = bt.Backtest(root, data, integer_positions=False)
try:
    r = bt.run(t)
    print("completed", t.strategy.prices.iloc[-1])
except Exception as e:
    import traceback; traceback.print_exc()
# depth 2 control
leaf2 = bt.Strategy("leaf", algos(), children=["a", "b"])
root2 = bt.Strategy("root", algos(), children=[leaf2])
t2 = bt.Backtest(root2, data, integer_positions=False); bt.run(t2); print("depth2 ok", t2.strategy.prices.iloc[-1])
