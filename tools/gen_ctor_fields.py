#!/venv/bin/python
"""Freeze, from the current /repo, which private fields store which constructor parameter
(btlint/data/ctor_fields.json).  The reference models in the rule sets name private fields as the pinned
tree does; the equivalence check maps both sides to 'ctor:<param>' so that a consistent private rename
is not reported.  Re-run only when the reference models are re-written against a new pinned tree."""
import json
import os
import sys

sys.path.insert(0, os.path.dirname(os.path.dirname(os.path.abspath(__file__))))
from btlint.source import Program, ctor_field_map, private_field_table, private_method_table  # noqa: E402

prog = Program(normalise=False)
out = {}
for c in sorted(prog.classes):
    m = ctor_field_map(prog, c)
    if m:
        out[c] = m
path = os.path.join(os.path.dirname(os.path.dirname(os.path.abspath(__file__))), "btlint", "data", "ctor_fields.json")
with open(path, "w") as f:
    json.dump(out, f, indent=1, sort_keys=True)
print("%d classes" % len(out))

tab = private_method_table(prog.trees)
tab["__fields__"] = private_field_table(prog.trees)
path = os.path.join(os.path.dirname(path), "private_methods.json")
with open(path, "w") as f:
    json.dump(tab, f, indent=1, sort_keys=True)
print("%d scopes with private methods" % len(tab))
